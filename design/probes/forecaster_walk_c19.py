import os, logging, random
os.environ["FANDANGO_DISABLE_UPDATE_CHECK"]="1"
from fandango import Fandango
from fandango.language.tree import DerivationTree
from fandango.language.symbols import NonTerminal
from fandango.io.navigation.packetforecaster import PacketForecaster
def mk(spec, **kw): return Fandango(spec, use_stdlib=False, logging_level=logging.CRITICAL, **kw)
spec = '''<start> ::= <A:ping> (<B:pong> <A:ping>){0,2} <B:bye>?
<ping> ::= "p"
<pong> ::= "q"
<bye> ::= "b"
class A(FandangoParty):
    def __init__(self):
        super().__init__(connection_mode=ConnectionMode.OPEN)
class B(FandangoParty):
    def __init__(self):
        super().__init__(connection_mode=ConnectionMode.EXTERNAL)
'''
f = mk(spec); g=f.grammar
fc = PacketForecaster(g)
def options(tree):
    r = fc.predict(tree)
    res=[]
    for party, fnt in r.parties_to_packets.items():
        for nt, pkt in fnt.nt_to_packet.items():
            res.append((party, pkt.node.recipient, nt.name(), pkt))
    return r, res
def mount(pkt):
    outs=[]
    for mp in pkt.paths:
        tree = g.collapse(mp.tree)
        dummy = DerivationTree(NonTerminal("<hookin>"))
        tree.append(mp.path[1:-1], dummy)
        fp = dummy.parent
        fp.set_children(fp.children[:-1])
        pkt.node.fuzz(fp, g, 20)
        outs.append(tree)
    return outs
seen={}
def walk(tree, hist, depth):
    r, opts = options(tree)
    key=tuple(hist)
    rec=(sorted((p,rc,nt) for p,rc,nt,_ in opts), len(r.complete_trees)>0)
    seen.setdefault(key,set()).add((tuple(rec[0]),rec[1]))
    if depth==0: return
    for p,rc,nt,pkt in opts:
        for t2 in mount(pkt):
            walk(t2, hist+[nt], depth-1)
walk(DerivationTree(NonTerminal("<start>")), [], 6)
for k,v in sorted(seen.items(), key=lambda kv:(len(kv[0]),kv[0])):
    print(" ".join(k) or "<empty>", "->", v)
