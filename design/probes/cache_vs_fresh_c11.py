import os, logging, random, itertools, collections, io, contextlib, sys
os.environ["FANDANGO_DISABLE_UPDATE_CHECK"]="1"
from fandango import Fandango
from fandango.evolution.evaluation import Evaluator
def mk(spec, **kw): return Fandango(spec, use_stdlib=False, logging_level=logging.CRITICAL, **kw)
GR='''<start> ::= <item>{1,4}
<item> ::= <k> "=" <v> ";"
<k> ::= "a" | "b" | "c"
<v> ::= <d>{1,3}
<d> ::= "0"|"1"|"2"|"3"
'''
CONS=[
 ['where forall <i> in <start>.<item>: int(<i>.<v>) > 10', 'where exists <i> in <item>: str(<i>.<k>) == "c"', 'where |<item>| >= 2'],
 ['where forall <i> in <item>: exists <j> in <i>..<d>: str(<j>) == "3"', 'where str(<k>) != "b"'],
 ['where all(any(str(e) == "1" for e in *<i>..<d>) for <i> in *<item>)'],
 ['where forall <i> in <item>: forall <j> in <item>: str(<i>.<k>) != str(<j>.<k>) or str(<i>) == str(<j>)'],
 ['where int(<v>) % 2 == 0 and len(str(<start>)) > 8', 'where str(<start>..<k>) != "a" or int(<start>..<v>) > 5'],
 ['where forall <i> in <item>: (str(<i>.<k>) == "a" and int(<i>.<v>) < 100) or str(<i>.<k>) != "a"', 'where exists <e> in <v>.<d>: str(<e>) == "0"'],
]
def fitness_tuple(res):
    fit, failing, sugg = res
    return (round(fit,12), sorted(str(ft.tree)+"@"+str(len(ft.tree.get_path())) for ft in failing))
tot=0; mism=0; exs=[]
for ci,cons in enumerate(CONS):
    spec=GR+"\n".join(cons)+"\n"
    for seed in range(6):
        f=mk(spec)
        with contextlib.redirect_stderr(io.StringIO()):
            f.init_population(population_size=12, random_seed=seed, max_nodes=60)
        ev=f.fandango.evaluator
        orig=Evaluator.evaluate_individual
        log=[]
        def wrapped(self, individual, _orig=orig):
            res = yield from _orig(self, individual)
            log.append((individual, res))
            return res
        ev.evaluate_individual = wrapped.__get__(ev, Evaluator)
        # the strategy captured bound method? it passes self.evaluator.evaluate_individual at call time -> ok
        with contextlib.redirect_stderr(io.StringIO()):
            sols=list(itertools.islice(f.generate_solutions(max_generations=6), 30))
        # compare each logged return against a fresh evaluator with fresh constraints
        for ind,res in log[:400]:
            f2=mk(spec)
            ev2=Evaluator(f2.grammar, f2.constraints, 1.0, 5, 1.0)
            with contextlib.redirect_stderr(io.StringIO()):
                g=ev2.evaluate_individual(ind)
                try:
                    while True: next(g)
                except StopIteration as st: fresh=st.value
            tot+=1
            if fitness_tuple(res)!=fitness_tuple(fresh):
                mism+=1
                if len(exs)<3: exs.append((ci,seed,str(ind),fitness_tuple(res),fitness_tuple(fresh)))
print("evaluations compared",tot,"mismatches",mism)
for e in exs: print(e)
