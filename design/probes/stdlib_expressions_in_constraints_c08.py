import os, sys, ast, glob, collections, io, contextlib, json, signal, sysconfig
os.environ["FANDANGO_DISABLE_UPDATE_CHECK"]="1"
from multiprocessing import Pool
sys.path.insert(0, os.path.dirname(os.path.abspath(__file__)))
from stdlib_translation_c08 import Norm, first_diff
def dump(src): 
    t=ast.parse(src, mode="eval"); t=Norm().visit(t); return ast.dump(t)
def handler(*a): raise TimeoutError()
def work(src):
    import logging
    from fandango import Fandango
    signal.signal(signal.SIGALRM, handler); signal.alarm(20)
    try:
        with contextlib.redirect_stderr(io.StringIO()), contextlib.redirect_stdout(io.StringIO()):
            f=Fandango('<start> ::= "a"\nwhere ('+src+')\n', use_stdlib=False, logging_level=logging.CRITICAL)
        c=f.constraints[0]
    except TimeoutError: return ("timeout",src,"")
    except BaseException as e:
        signal.alarm(0); return ("rejected",src,type(e).__name__)
    signal.alarm(0)
    out=getattr(c,"expression",None)
    if out is None: return ("other-constraint-class",src,type(c).__name__)
    try: same = dump(out)==dump("("+src+")")
    except SyntaxError: return ("unparseable-output",src,out)
    return ("same" if same else "DIFFERENT", src, out)
if __name__=="__main__":
    lib=sysconfig.get_paths()["stdlib"]
    mods=sorted(glob.glob(lib+"/*.py"))[:int(sys.argv[1])]
    exprs={}
    for m in mods:
        try: t=ast.parse(open(m,encoding="utf-8").read())
        except Exception: continue
        for n in ast.walk(t):
            if isinstance(n, ast.expr) and not isinstance(n,(ast.Name,ast.Constant)):
                try: s=ast.unparse(n)
                except Exception: continue
                if 3<len(s)<80 and "\n" not in s and "yield" not in s and "await" not in s:
                    exprs.setdefault((type(n).__name__, s), None)
    # keep at most 150 per node type
    per=collections.defaultdict(list)
    for (tp,s) in exprs: 
        if len(per[tp])<150: per[tp].append(s)
    srcs=[s for tp in per for s in per[tp]]
    print("expressions",len(srcs),"types",len(per),flush=True)
    with Pool(16) as p: res=p.map(work, srcs, chunksize=16)
    c=collections.Counter(r[0] for r in res); print(dict(c))
    print("rejections:", dict(collections.Counter(r[2] for r in res if r[0]=="rejected")))
    classes=collections.Counter(); ex={}
    for kind,src,out in res:
        if kind=="DIFFERENT":
            try:
                d=first_diff("x=("+src+")","x=("+out+")")
            except Exception as e: d=None
            key=(d[0][-1] if d else "?", d[1] if d else "?")
            classes[key]+=1; ex.setdefault(key,(src,out))
    for k,v in classes.most_common(25): print(v,k,"|",ex[k][0][:60],"=>",ex[k][1][:60])
