import os, logging, random, io, contextlib, sys, collections
os.environ["FANDANGO_DISABLE_UPDATE_CHECK"]="1"
from fandango import Fandango
def mk(spec, **kw): return Fandango(spec, use_stdlib=False, logging_level=logging.CRITICAL, **kw)
rnd=random.Random(int(sys.argv[1]) if len(sys.argv)>1 else 0)
GRS=[
'''<start> ::= <n> <a>{int(<n>)} "|" <w>
<n> ::= "1" | "2" | "3"
<a> ::= "x" | "y" | <dd>
<dd> ::= <d> <d>
<d> ::= "0" | "1" | "9"
<w> ::= <d>+ | "abc"
''',
'''<start> ::= <hdr> <rec>* 
<hdr> ::= <len> ":"
<len> ::= <d>{1,2}
<rec> ::= <k> "=" <v> ";"
<k> ::= "a" | "b"
<v> ::= <d>+ | "none"
<d> ::= "0" | "1" | "2"
''',
]
ATOMS=[
 'int(<w>) > 5', 'int(<v>) < 20', 'int(<len>) == |<rec>|', 'str(<k>) != "b"', 'len(str(<start>)) > 6', 'int(<d>) < 9',
 '|<a>| >= 2', 'str(<a>) != "y"', 'int(<dd>) >= 10', '|<rec>| >= 1', 'str(<v>) != "none"', 'int(<v>) % 2 == 0',
 'forall <r> in <rec>: int(<r>.<v>) > 0', 'exists <r> in <rec>: str(<r>.<k>) == "a"', 'any(int(x) > 0 for x in *<d>)',
]
viol=collections.Counter(); emitted=0; specs=0; exs=[]
for trial in range(120):
    g=rnd.choice(GRS)
    cons=[a for a in rnd.sample(ATOMS, rnd.randint(1,3))]
    spec=g+"\n".join("where "+c for c in cons)+"\n"
    try:
        with contextlib.redirect_stderr(io.StringIO()):
            f=mk(spec)
    except Exception: continue
    specs+=1
    try:
        with contextlib.redirect_stderr(io.StringIO()):
            sols=f.fuzz(desired_solutions=10,population_size=rnd.choice([5,20]),max_generations=12,random_seed=trial,max_nodes=40)
    except Exception as e:
        viol[("fuzz-exc",type(e).__name__)]+=1; continue
    for t in sols:
        emitted+=1
        f2=mk(spec)   # fresh constraint objects
        for c in f2.constraints:
            raised=[False]
            import fandango.logger as lg
            err=io.StringIO()
            with contextlib.redirect_stderr(err):
                try: ok=c.check(t)
                except Exception as e: ok=False; raised[0]=True
            if err.getvalue().strip(): raised[0]=True
            if (not ok) or raised[0]:
                viol[("unsat" if not ok else "raised-but-true", c.format_as_spec()[:50])]+=1
                if len(exs)<4: exs.append((str(t), c.format_as_spec(), ok, raised[0]))
print("specs",specs,"emitted",emitted,"violations",sum(viol.values()))
for k,v in viol.most_common(8): print(v,k)
for e in exs: print("EX",e)
