import os, logging, random, itertools, collections, io, contextlib
os.environ["FANDANGO_DISABLE_UPDATE_CHECK"]="1"
from fandango import Fandango
from fandango.language.grammar import ParsingMode
from fandango.language.tree import DerivationTree
from fandango.language.symbols import Terminal
def mk(spec): return Fandango(spec, use_stdlib=False, logging_level=logging.CRITICAL)
def shape(t):
    if t is None: return None
    if t.symbol.is_terminal: return repr(str(t.symbol.value()))
    return t.symbol.name()+"("+",".join(shape(c) for c in t.children)+")"
SPEC='''<start> ::= <a> | <b> | <c>{1,3}
<a> ::= "x" | "x" "y"
<b> ::= <d> <d>? 
<d> ::= "x" | "y"
<c> ::= "x" | "y" | "xy"
where len(str(<start>)) >= 1
'''
WORDS=["x","xy","y","xyx","z",""]
def request(f, kind, w):
    g=f.grammar
    if kind=="parse": r=g.parse(w); res=[shape(r)]; trees=[r] if r else []
    elif kind=="forest": trees=list(g.parse_forest(w)); res=sorted(shape(t) for t in trees)
    elif kind=="forest1":
        gen=g.parse_forest(w); t=next(gen,None); trees=[t] if t else []; res=None   # abandoned, result not compared
        del gen
    elif kind=="forest_cf": trees=list(g.parse_forest(w, include_controlflow=True)); res=sorted(shape(g.collapse(t)) for t in trees)
    elif kind=="multiple": trees=list(g.parse_multiple(w)); res=sorted(shape(t) for t in trees)
    elif kind=="prefix": trees=list(g.parse_forest(w, mode=ParsingMode.INCOMPLETE)); res=sorted(shape(t) for t in trees)
    elif kind=="start_c": trees=list(g.parse_forest(w, start="<c>")); res=sorted(shape(t) for t in trees)
    elif kind=="api": trees=list(f.parse(w)); res=sorted(shape(t) for t in trees)
    elif kind=="tree_in":
        t=g.parse(w)
        trees=list(g.parse_forest(t)) if t else []; res=sorted(shape(x) for x in trees)
    return res, trees
KINDS=["parse","forest","forest1","forest_cf","multiple","prefix","start_c","api","tree_in"]
rnd=random.Random(3)
fresh_cache={}
def fresh(kind,w):
    if (kind,w) not in fresh_cache:
        fresh_cache[(kind,w)]=request(mk(SPEC),kind,w)[0]
    return fresh_cache[(kind,w)]
bad=collections.Counter(); n=0; ex={}
for trial in range(400):
    f=mk(SPEC); hist=[]
    for step in range(rnd.randint(2,5)):
        kind=rnd.choice(KINDS); w=rnd.choice(WORDS); hist.append((kind,w))
        res,trees=request(f,kind,w)
        # mutate handed-out trees
        for t in trees:
            if t is not None and rnd.random()<0.5:
                t.add_child(DerivationTree(Terminal("!")))
        if res is None: continue
        n+=1
        if res!=fresh(kind,w):
            prev=tuple(k for k,_ in hist[:-1] if True)
            bad[(kind, tuple(sorted(set(k for k,ww in hist[:-1] if ww==w))))]+=1
            ex.setdefault(kind,(hist,res,fresh(kind,w)))
print("requests",n,"mismatches",sum(bad.values()))
for k,v in bad.most_common(12): print(v,k)
for k,v in list(ex.items())[:4]: print("EX",k,v)
