import os, random, copy, collections
os.environ["FANDANGO_DISABLE_UPDATE_CHECK"]="1"
from fandango.language.tree import DerivationTree
from fandango.language.symbols import Terminal, NonTerminal
from fandango.language.grammar.grammar import Grammar
G=Grammar.dummy()
def rebuild(t):
    return DerivationTree(t.symbol, [rebuild(c) for c in t.children], sender=t.sender, recipient=t.recipient)
def rsize(t): return 1+sum(rsize(c) for c in t.children)
def snap(t):
    return (repr(t.symbol), t.sender, t.recipient, id(t.parent) if t.parent is not None else None, t.read_only, tuple(snap(c) for c in t.children), tuple(id(c) for c in t.children))
def check(root, label, viol):
    for n in root.flatten():
        if n.size()!=rsize(n): viol[("size",label)]+=1
        if hash(n)!=hash(rebuild(n)): viol[("hash",label)]+=1
        for c in n.children:
            if c.parent is not n: viol[("parent",label)]+=1
rnd=random.Random(1)
def rtree(d=2):
    if d==0 or rnd.random()<0.3: return DerivationTree(Terminal(rnd.choice("ab")))
    return DerivationTree(NonTerminal(rnd.choice(["<x>","<y>"])), [rtree(d-1) for _ in range(rnd.randint(0,3))])
viol=collections.Counter(); pure=collections.Counter()
for trial in range(3000):
    root=DerivationTree(NonTerminal("<s>"), [rtree() for _ in range(rnd.randint(1,3))])
    for step in range(rnd.randint(1,5)):
        nodes=[n for n in root.flatten()]
        inner=[n for n in nodes if n.symbol.is_non_terminal]
        op=rnd.choice(["add","setch","sym","hashread","item","find","value","deepcopy","replace","prefix","sender","split"])
        n=rnd.choice(inner)
        before=snap(root)
        try:
            if op=="add": n.add_child(rtree(1))
            elif op=="setch":
                ch=list(n.children); rnd.shuffle(ch); n.set_children(ch[:rnd.randint(0,len(ch))])
            elif op=="sym": n.symbol=NonTerminal(rnd.choice(["<x>","<y>","<z>"]))
            elif op=="sender": n.sender=rnd.choice([None,"A","B"])
            elif op=="hashread": hash(root)
            elif op=="slice":
                _=n[0:rnd.randint(0,3)]
                if snap(root)!=before: pure["slice"]+=1
            elif op=="item":
                if n.children:
                    _=n[rnd.randrange(len(n.children))]
                    if snap(root)!=before: pure["item"]+=1
            elif op=="find":
                _=root.find_all_trees(NonTerminal("<x>")); _=root.find_direct_trees(NonTerminal("<y>"))
                if snap(root)!=before: pure["find"]+=1
            elif op=="value":
                _=str(root); _=root.to_bits() if False else None
                if snap(root)!=before: pure["value"]+=1
            elif op=="deepcopy":
                c=copy.deepcopy(n)
                if snap(root)!=before: pure["deepcopy"]+=1
                check(c.get_root(), "deepcopy-result", viol)
            elif op=="replace":
                tgt=rnd.choice(inner)
                new=DerivationTree(tgt.symbol,[rtree(1)])
                r=root.replace(G, tgt, new)
                if snap(root)!=before: pure["replace"]+=1
                check(r, "replace-result", viol)
            elif op=="prefix":
                if n.parent is not None:
                    p=n.prefix()
                    if snap(root)!=before: pure["prefix"]+=1
                    check(p.get_root(), "prefix-result", viol)
            elif op=="split":
                s=n.split_end()
                if snap(root)!=before: pure["split_end"]+=1
                check(s.get_root(), "split-result", viol)
        except Exception as e:
            viol[("exc",op,type(e).__name__)]+=1
        check(root, op, viol)
print("invariant violations:", dict(viol))
print("purity violations:", dict(pure))
