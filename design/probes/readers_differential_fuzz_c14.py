import os, sys, glob, random, logging, io, contextlib, re, json
os.environ["FANDANGO_DISABLE_UPDATE_CHECK"]="1"
from multiprocessing import Pool
def conv(args):
    text, = args
    import fandango
    from fandango import Fandango
    from fandango.language.parse.parse_spec import parse_content
    out=[]
    for which in ("python","cpp"):
        Fandango.parser = which
        try:
            with contextlib.redirect_stderr(io.StringIO()), contextlib.redirect_stdout(io.StringIO()):
                spec = parse_content(text, filename="<s>", use_cache=False)
                r=("ok", repr(spec))
        except BaseException as e:
            r=("err", type(e).__name__)
        out.append(r)
    return out
def perturb(rnd, text):
    toks=re.findall(r"\s+|[A-Za-z_][A-Za-z_0-9]*|<[^<>\s]*>|\"[^\"\n]*\"|'[^'\n]*'|\d+|::=|:=|\S", text)
    if not toks: return text
    k=rnd.choice(["del","dup","swap","indent","nl","bracket","quote"])
    i=rnd.randrange(len(toks))
    if k=="del": toks.pop(i)
    elif k=="dup": toks.insert(i,toks[i])
    elif k=="swap" and i+1<len(toks): toks[i],toks[i+1]=toks[i+1],toks[i]
    elif k=="indent": toks.insert(i, rnd.choice(["  ","\t","    "," \t"]))
    elif k=="nl": toks.insert(i, rnd.choice(["\n","\r\n","\n\n","\\\n"]))
    elif k=="bracket": toks.insert(i, rnd.choice(list("()[]{}")))
    elif k=="quote": toks.insert(i, rnd.choice(["'",'"',"f'","#"]))
    return "".join(toks)
if __name__=="__main__":
    rnd=random.Random(int(sys.argv[1]))
    files=sorted(glob.glob("/repo/tests/resources/*.fan")+glob.glob("/repo/docs/*.fan"))
    small=[open(f).read() for f in files if os.path.getsize(f)<1500]
    texts=[]
    for _ in range(int(sys.argv[2])):
        t=rnd.choice(small)
        for _ in range(rnd.randint(1,2)): t=perturb(rnd,t)
        texts.append(t)
    with Pool(16) as p: res=p.map(conv, [(t,) for t in texts], chunksize=8)
    diff=[(t,r) for t,r in zip(texts,res) if r[0]!=r[1]]
    ok=sum(1 for r in res if r[0][0]=="ok"); 
    print("texts",len(texts),"both-ok",ok,"diffs",len(diff))
    for t,r in diff[:5]: print("DIFF",r[0][0],r[1][0],r[0][1][:60] if r[0][0]=="err" else "",r[1][1][:60] if r[1][0]=="err" else "",repr(t)[:200])
    json.dump([(t,r) for t,r in diff], open("/tmp/probe/c14_diffs.json","w"))
