import os, logging, sys, subprocess, json
os.environ["FANDANGO_DISABLE_UPDATE_CHECK"]="1"
from fandango import Fandango
def mk(spec, **kw): return Fandango(spec, use_stdlib=False, logging_level=logging.CRITICAL, **kw)
spec = '''<start> ::= <item>{1,4}
<item> ::= <k> "=" <v> ";"
<k> ::= "a" | "b" | "c"
<v> ::= <d>{1,3}
<d> ::= "0"|"1"|"2"|"3"
where forall <i> in <start>.<item>: int(<i>.<v>) > 10
where exists <i> in <item>: str(<i>.<k>) == "c"
where |<item>| >= 2
'''
if len(sys.argv)>1:
    f=mk(spec)
    sols=f.fuzz(desired_solutions=10,population_size=20,random_seed=7,max_generations=50)
    print(json.dumps([str(s) for s in sols])); sys.exit(0)
outs=[]
for i in range(2):
    r=subprocess.run([sys.executable,__file__,"x"],capture_output=True,text=True,env={**os.environ,"PYTHONHASHSEED":"0"})
    outs.append(r.stdout.strip().splitlines()[-1] if r.stdout.strip() else r.stderr[-300:])
print(outs[0]==outs[1]); print(outs[0][:300])
# C11: fresh vs cached
f=mk(spec)
sols=[]
f.init_population(population_size=20, random_seed=7)
ev=f.fandango.evaluator
import itertools
gen=f.generate_solutions(max_generations=10)
sols=list(itertools.islice(gen,5))
f2=mk(spec)
mism=0; n=0
for ind in f.fandango.population:
    key=hash((ind.get_root(), ind))
    if key in ev._fitness_cache:
        cached=ev._fitness_cache[key][0]
        fresh=[c.fitness(ind).fitness() for c in f2.constraints]
        freshv=[c.fitness(ind).success for c in f2.constraints]
        n+=1
        hard=sum(fresh)/len(fresh)
        if abs(hard-cached)>1e-9: mism+=1; print("MISMATCH", str(ind), cached, fresh)
print("checked", n, "mismatch", mism)
