import os, logging, random, io, contextlib, sys, collections, re
os.environ["FANDANGO_DISABLE_UPDATE_CHECK"]="1"
from fandango import Fandango
def mk(spec, **kw): return Fandango(spec, use_stdlib=False, logging_level=logging.CRITICAL, **kw)
CASES=[
 ('''<start> ::= <n> ":" <a>{int(<n>)} ";" <m> ":" <b>{int(<m>)+1}
<n> ::= "0" | "1" | "2" | "3" | "4"
<m> ::= "0" | "1" | "2"
<a> ::= "x" | "y"
<b> ::= "p" | "qq"
''', re.compile(r"^(\d):([xy]*);(\d):((?:p|qq)*)$"), lambda m: len(m.group(2))==int(m.group(1)) and len(re.findall("p|qq",m.group(4)))==int(m.group(3))+1),
 ('''<start> ::= <rec>{1,3}
<rec> ::= <len> <item>{int(<len>)} "."
<len> ::= "1" | "2" | "3"
<item> ::= "a" | "b" <item>?
''', None, None),
]
CONS=[[],['where str(<start>).count("y") >= 1'],['where len(str(<start>)) > 8'],['where int(<n>) >= 2'],['where str(<a>) == "x"']]
def check2(t):
    # independent structural check for grammar 2: each <rec> has int(len) <item> children
    from fandango.language.symbols import NonTerminal
    bad=[]
    for rec in t.find_all_trees(NonTerminal("<rec>")):
        syms=[c.symbol.name() if c.symbol.is_non_terminal else str(c.symbol.value()) for c in rec.children]
        n=int(str(rec.children[0])); k=syms.count("<item>")
        if k!=n or syms[0]!="<len>" or syms[-1]!=".": bad.append((syms,n,k))
    recs=len(t.find_direct_trees(NonTerminal("<rec>")))
    if not (1<=recs<=3): bad.append(("recs",recs))
    return bad
tot=0; bad=collections.Counter(); exs=[]
for gi,(g,rx,pred) in enumerate(CASES):
    for cons in (CONS if gi==0 else [[],['where len(str(<start>)) > 8'],['where str(<item>) != "a"']]):
        for seed in range(10):
            spec=g+"\n".join(cons)+"\n"
            try:
                with contextlib.redirect_stderr(io.StringIO()):
                    f=mk(spec)
                    sols=f.fuzz(desired_solutions=15,population_size=20,max_generations=20,random_seed=seed,max_nodes=60)
            except Exception as e:
                bad[("exc",type(e).__name__)]+=1; continue
            for t in sols:
                tot+=1; s=str(t)
                if gi==0:
                    m=rx.match(s)
                    if not m or not pred(m): bad[("g0-invalid",)]+=1; exs.append((spec.splitlines()[-1],s))
                else:
                    b=check2(t)
                    if b: bad[("g1-invalid",)]+=1; exs.append((spec.splitlines()[-1],s,b[:1]))
print("solutions",tot,"issues",dict(bad)); print(exs[:5])
