import os, logging, random, itertools, collections, io, contextlib, sys
os.environ["FANDANGO_DISABLE_UPDATE_CHECK"]="1"
from fandango import Fandango
from fandango.language.grammar import FuzzingMode
import fandango.evolution.algorithm as alg
import fandango.io.packetparser as pp
import fandango.io as fio
def mk(spec, **kw): return Fandango(spec, use_stdlib=False, logging_level=logging.CRITICAL, **kw)
class VClock:
    def __init__(self): self.now=0.0; self.hook=None
    def time(self): return self.now
    def sleep(self, d):
        self.now+=d
        if self.hook: self.hook("sleep")
clock=VClock(); alg.time=clock; pp.time=clock
SPEC = '''<start> ::= <F:X:go> <X:F:a> <X:G:b> <G:X:end>
<go> ::= "go"
<a> ::= "a" <d> "a"
<b> ::= "bb"
<d> ::= "1" | "2"
<end> ::= "end"
EVENTS = []
class F(FandangoParty):
    def __init__(self):
        super().__init__(connection_mode=ConnectionMode.OPEN)
    def send(self, message, recipient):
        EVENTS.append(("send", self.party_name, recipient, str(message)))
    def start(self): pass
    def stop(self): pass
class X(FandangoParty):
    def __init__(self):
        super().__init__(connection_mode=ConnectionMode.EXTERNAL)
    def start(self): pass
    def stop(self): pass
class G(FandangoParty):
    def __init__(self):
        super().__init__(connection_mode=ConnectionMode.OPEN)
    def send(self, message, recipient):
        EVENTS.append(("send", self.party_name, recipient, str(message)))
    def start(self): pass
    def stop(self): pass
'''
class Abort(Exception): pass
def run(decisions, streams):
    """decisions: list of choices consumed at each access point: 0 = deliver nothing, 1 = deliver next X unit, 2 = next Y unit.
       After decisions run out: deliver nothing until sleeps, then flush remaining in X-then-Y order one per sleep (so runs finish)."""
    f=mk(SPEC); env=f.grammar._global_variables; EVENTS=env["EVENTS"]; io_=env["FandangoIO"].instance()
    q={k:list(v) for k,v in streams.items()}; di=[0]; points=[0]; started=[False]
    def deliver(p):
        if q[p]:
            u=q[p].pop(0); rcp={"X":"F","Y":"G"}[p]; EVENTS.append(("deliver","X->"+rcp,u)); io_.parties[rcp].receive(u,"X")
    def hook(kind):
        if not started[0]:
            started[0]=any(e[0]=="send" for e in EVENTS)
            if not started[0]: return
        points[0]+=1
        if di[0] < len(decisions):
            c=decisions[di[0]]; di[0]+=1
            if c==1: deliver("X")
            elif c==2: deliver("Y")
        elif kind=="sleep":
            if q["X"]: deliver("X")
            elif q["Y"]: deliver("Y")
    clock.hook=hook; clock.now=0.0
    orig_rm=io_.received_msg; orig_grm=io_.get_received_msgs
    def rm(): hook("access"); return orig_rm()
    def grm(): hook("access"); return orig_grm()
    io_.received_msg=rm; io_.get_received_msgs=grm
    err=io.StringIO()
    try:
        with contextlib.redirect_stderr(err):
            res=f.fuzz(mode=FuzzingMode.IO, population_size=1, random_seed=1)
        out=("ok", tuple((m.sender,m.recipient,str(m.msg)) for m in res[0].protocol_msgs()))
    except BaseException as e:
        out=("exc", type(e).__name__, str(e)[:60])
    logged=[l.split(":")[0] for l in err.getvalue().splitlines() if l and not l.startswith(" ")]
    return out, [e for e in EVENTS], points[0], logged
streams={"X":["a","1","a"],"Y":["b","b"]}
expected=None
outs=collections.Counter(); exs={}
D=int(sys.argv[1]) if len(sys.argv)>1 else 7
n=0
for decisions in itertools.product([0,1,2], repeat=D):
    out,ev,pts,logged=run(list(decisions),streams); n+=1
    outs[(out, tuple(sorted(set(logged))))]+=1
    exs.setdefault((out, tuple(sorted(set(logged)))),(decisions,[e for e in ev if e[0]!="send"]))
print("runs",n)
for k,v in outs.most_common(): print(v,k); print("    e.g.",exs[k])
