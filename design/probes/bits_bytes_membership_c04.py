import os, logging, itertools, collections, time
os.environ["FANDANGO_DISABLE_UPDATE_CHECK"]="1"
from fandango import Fandango
def mk(spec, **kw): return Fandango(spec, use_stdlib=False, logging_level=logging.CRITICAL, **kw)
SPEC='''<start> ::= <hdr> <body>
<hdr> ::= <bit>{3} 1 0 <flag> <flag> <bit>
<flag> ::= 0 | 1
<bit> ::= 0 | 1
<body> ::= b"\\x01" | b"\\xff" <bit>{8} | <nib> <nib>
<nib> ::= 1 0 1 0 | 0 1 1 <bit>
'''
def ref(data: bytes) -> bool:
    bits=[(b>>(7-i))&1 for b in data for i in range(8)]
    if len(bits)<8: return False
    h=bits[:8]
    if not (h[3]==1 and h[4]==0): return False
    rest=data[1:]
    if rest==b"\x01": return True
    if len(rest)==2 and rest[0]==0xff: return True
    if len(rest)==1:
        rb=bits[8:16]
        def nib(n): return n==[1,0,1,0] or n[:3]==[0,1,1]
        return nib(rb[:4]) and nib(rb[4:])
    return False
f=mk(SPEC)
t0=time.time(); n=0; bad=[]; acc=0
def check(data):
    global n, acc
    n+=1
    f.grammar._parser._cache.clear()
    trees=list(f.grammar.parse_forest(data))
    got=len(trees)>0; exp=ref(data)
    if got: 
        acc+=1
        for t in trees:
            if bytes(t)!=data: bad.append(("yield",data,bytes(t)))
    if got!=exp: bad.append(("membership",data,got,exp))
for L in (1,2):
    for tup in itertools.product(range(256), repeat=L): check(bytes(tup))
for a in range(256):
    for c in range(0,256,5): check(bytes([a,0xff,c]))
print("inputs",n,"accepted",acc,"bad",len(bad),"time",round(time.time()-t0,1)); print(bad[:5])
