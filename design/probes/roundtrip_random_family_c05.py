import os, sys, json, random, logging, io, contextlib, collections, signal
os.environ["FANDANGO_DISABLE_UPDATE_CHECK"]="1"
from fandango import Fandango
def handler(*a): raise TimeoutError()
signal.signal(signal.SIGALRM, handler)
rnd=random.Random(int(sys.argv[1]))
LITS=['"a"','"b"','"0"','"1"','"xy"','"é"','b"\\x01"','b"\\xff\\x00"','r"[a-c]+"','r"[0-9]{1,3}"','r"[xyz]?"','rb"[\\x10-\\x12]+"', '" "', '","']
def rnode(depth, nts, binary):
    r=rnd.random()
    if depth<=0 or r<0.3:
        if rnd.random()<0.55:
            l=rnd.choice(LITS)
            if (l.startswith('b"') or l.startswith('rb"')) and not binary: l='"q"'
            return l
        return rnd.choice(nts)
    if r<0.5: return "("+" | ".join(rnode(depth-1,nts,binary) for _ in range(rnd.randint(2,3)))+")"
    if r<0.75: return " ".join(rnode(depth-1,nts,binary) for _ in range(rnd.randint(2,3)))
    op=rnd.choice(["*","+","?","{2}","{1,3}","{0,2}","{2,}"])
    return "("+rnode(depth-1,nts,binary)+")"+op
def rspec():
    binary=rnd.random()<0.3
    n=rnd.randint(2,4); nts=[f"<n{i}>" for i in range(n)]
    lines=["<start> ::= "+rnode(2,nts,binary)]
    for i,nt in enumerate(nts):
        lines.append(f"{nt} ::= {rnode(2, nts[i+1:] or ['\"z\"'], binary)} | \"{chr(99+i)}\"")
    return "\n".join(lines)+"\n"
stats=collections.Counter(); exs=[]
for trial in range(int(sys.argv[2])):
    spec=rspec()
    try:
        with contextlib.redirect_stderr(io.StringIO()):
            f=Fandango(spec,use_stdlib=False,logging_level=logging.CRITICAL)
    except Exception: stats["spec-error"]+=1; continue
    for k in range(6):
        signal.alarm(5)
        try:
            t=f.grammar.fuzz("<start>", max_nodes=rnd.choice([5,15,40]))
            w = bytes(t) if t.should_be_serialized_to_bytes() else str(t)
            f.grammar._parser._cache.clear()
            p=f.grammar.parse(w)
            signal.alarm(0)
        except TimeoutError:
            stats["timeout"]+=1; continue
        except Exception as e:
            signal.alarm(0); stats["exc:"+type(e).__name__]+=1
            if len(exs)<6: exs.append(("exc",type(e).__name__,spec)); 
            continue
        if p is None:
            stats["NOT-PARSED-BACK"]+=1
            if len(exs)<8: exs.append(("noparse",repr(w)[:60],spec))
        else:
            pw = bytes(p) if p.should_be_serialized_to_bytes() else str(p)
            stats["ok" if pw==w else "DIFFERENT-VALUE"]+=1
print(dict(stats))
for e in exs: print(e)
