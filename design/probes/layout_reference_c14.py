import os, sys, itertools, logging, io, contextlib, collections
os.environ["FANDANGO_DISABLE_UPDATE_CHECK"]="1"
from antlr4.InputStream import InputStream
from antlr4 import Token
from fandango.language.parser.FandangoLexer import FandangoLexer
from fandango.language.parser.FandangoParser import FandangoParser
from fandango.language.parser import sa_fandango
from antlr4.tree.Tree import TerminalNodeImpl
LAYOUT={FandangoParser.NEWLINE:"NL", FandangoParser.INDENT:"IN", FandangoParser.DEDENT:"DE"}
def py_tokens(text):
    lx=FandangoLexer(InputStream(text)); lx.removeErrorListeners()
    out=[]
    while True:
        t=lx.nextToken()
        if t.type==Token.EOF: break
        if t.channel!=0: continue
        out.append(LAYOUT.get(t.type,"c"))
    return out
def leaves(tree, out):
    if isinstance(tree, TerminalNodeImpl):
        tp=tree.symbol.type
        if tp!=Token.EOF: out.append(LAYOUT.get(tp,"c"))
        return
    for i in range(tree.getChildCount()): leaves(tree.getChild(i), out)
class L(sa_fandango.SA_ErrorListener):
    def __init__(self): self.errs=0
    def syntaxError(self,*a): self.errs+=1
def tree_tokens(text, cpp):
    sa_fandango.USE_CPP_IMPLEMENTATION=cpp
    l=L()
    with contextlib.redirect_stderr(io.StringIO()):
        t=sa_fandango.parse(InputStream(text),"fandango",l)
    out=[]; leaves(t,out); return out, l.errs
def squash(toks):
    # collapse runs of code tokens
    out=[]
    for t in toks:
        if t=="c" and out and out[-1]=="c": continue
        out.append(t)
    return out
# ---- reference layout algorithm (what the spec will say), over abstract lines
def width(ws):
    c=0
    for ch in ws: c = c + (8 - c%8) if ch=="\t" else c+1
    return c
def reference(lines, final_newline):
    """lines: list of (ws, kind, text) kind in code/blank/comment ; returns squashed token classes"""
    out=[]; indents=[]; opened=0
    n=len(lines)
    text="".join(ws+txt+("\n" if (i<n-1 or final_newline) else "") for i,(ws,kind,txt) in enumerate(lines))
    for i,(ws,kind,txt) in enumerate(lines):
        if kind=="code":
            if not (out and out[-1]=="c"): out.append("c")
            opened+=txt.count("(")-txt.count(")")
        has_nl = (i<n-1 or final_newline)
        if not has_nl: break
        # on_newline after line i: spaces = ws of next line (or "" at EOF)
        nxt = lines[i+1] if i+1<n else None
        spaces = nxt[0] if nxt else ""
        # LA(1), LA(2) after the spaces
        rest = "".join(ws2+t2+("\n" if (j<n-1 or final_newline) else "") for j,(ws2,k2,t2) in enumerate(lines) if j>i)
        after = rest[len(spaces):]
        la1 = after[0] if len(after)>0 else None
        la2 = after[1] if len(after)>1 else None
        if opened>0 or (la2 is not None and la1 in ("\n","\r","#")):
            continue
        out.append("NL")
        ind=width(spaces); prev=indents[-1] if indents else 0
        if ind>prev: indents.append(ind); out.append("IN")
        elif ind<prev:
            while indents and indents[-1]>ind: indents.pop(); out.append("DE")
    if indents:
        out.append("NL")
        while indents: indents.pop(); out.append("DE")
    return out, text
WS=["","  ","    ","\t","      "]
def gen_cases():
    # first line is always 'def f():' ; then 1..3 lines from a small alphabet
    body_alphabet=[(w,"code","x = 1") for w in WS[1:]] + [(w,"code","if x:") for w in WS[1:3]] + [("","blank",""),("  ","blank",""),("    ","comment","# c"),("","comment","# c"),("    ","code","y = (1,"),("  ","code","2)")]
    for k in (1,2,3):
        for combo in itertools.product(body_alphabet, repeat=k):
            for tail in ([], [("","code","z = 3")]):
                for fn in (True, False):
                    yield [("","code","def f():")]+list(combo)+tail, fn
stats=collections.Counter(); exs=[]
for lines, fn in gen_cases():
    ref, text = reference(lines, fn)
    py = squash(py_tokens(text))
    stats["cases"]+=1
    if py!=ref:
        stats["ref!=py-lexer"]+=1
        if len(exs)<5: exs.append(("py",repr(text),ref,py))
    if stats["cases"]%7==0:   # sample for the (slower) parsers
        tp,ep = tree_tokens(text, False); tc,ec = tree_tokens(text, True)
        stats["parsed"]+=1
        if (ep==0)!=(ec==0): stats["accept-differs"]+=1
        if ep==0 and ec==0:
            stats["both-accept"]+=1
            if squash(tp)!=squash(tc): stats["tree-leaves-differ"]+=1; exs.append(("trees",repr(text),squash(tp),squash(tc)))
            if squash(tp)!=ref: stats["ref!=py-tree"]+=1
print(dict(stats))
for e in exs[:6]: print(e)
