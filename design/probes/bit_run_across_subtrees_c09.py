import os
os.environ["FANDANGO_DISABLE_UPDATE_CHECK"]="1"
from fandango.language.tree import DerivationTree
from fandango.language.symbols import Terminal, NonTerminal
def leaf(v): return DerivationTree(Terminal(v))
def nt(name, ch): return DerivationTree(NonTerminal(name), ch)
bits=[0,1,0,0,0,0,0,1]
flat=nt("<s>", [leaf(b) for b in bits]+[leaf("a")])
nested=nt("<s>", [nt("<l>",[leaf(bits[0])]), nt("<r>",[leaf(b) for b in bits[1:]]+[leaf("a")])])
nested2=nt("<s>", [nt("<l>",[leaf(b) for b in bits[:4]]), nt("<r>",[leaf(b) for b in bits[4:]]), leaf("a")])
for name,t in [("flat",flat),("nested: 1 bit | 7 bits + 'a'",nested),("nested: 4 bits | 4 bits | 'a'",nested2)]:
    for view in (bytes, str, lambda t: t.to_bits()):
        try: r=view(t)
        except Exception as e: r="EXC "+type(e).__name__
        print(name, "->", repr(r))
