import os, signal, logging, itertools, time
os.environ["FANDANGO_DISABLE_UPDATE_CHECK"]="1"
from fandango import Fandango
from fandango.language.grammar import FuzzingMode
from fandango.language.tree import DerivationTree
from fandango.language.symbols import NonTerminal
def mk(spec, **kw): return Fandango(spec, use_stdlib=False, logging_level=logging.CRITICAL, **kw)
def handler(*a): raise TimeoutError()
signal.signal(signal.SIGALRM, handler)

print("--- C16 generators")
spec = '''
LOG = []
def gen_len(x):
    v = str(len(str(x)))
    LOG.append(("len", str(x), v)); return v
<start> ::= <body> ":" <len>
<body> ::= <ch>{1,5}
<ch> ::= "a" | "b"
<len> ::= <digit>+ := gen_len(<body>)
<digit> ::= "0"|"1"|"2"|"3"|"4"|"5"|"6"|"7"|"8"|"9"
where str(<body>).count("a") >= 2
'''
f = mk(spec)
t0=time.time()
sols = f.fuzz(desired_solutions=8, population_size=10, random_seed=3, max_generations=30)
print(time.time()-t0, [str(s) for s in sols])
bad=[str(s) for s in sols if str(s).split(":")[1] != str(len(str(s).split(":")[0]))]
print("bad:", bad)
LOG = f.grammar._global_variables["LOG"]; print(len(LOG), LOG[:3])
for s in sols[:2]:
    lens = s.find_all_trees(NonTerminal("<len>"))
    print([ (str(l), [str(x) for x in l.sources], l.read_only, [c.read_only for c in l.children]) for l in lens])

print("--- C19 forecaster")
from fandango.io.navigation.packetforecaster import PacketForecaster
spec = '''<start> ::= <A:ping> (<B:pong> <A:ping>){0,2} <B:bye>?
<ping> ::= "p"
<pong> ::= "q"
<bye> ::= "b"
class A(FandangoParty):
    def __init__(self):
        super().__init__(connection_mode=ConnectionMode.OPEN)
class B(FandangoParty):
    def __init__(self):
        super().__init__(connection_mode=ConnectionMode.EXTERNAL)
'''
f = mk(spec)
fc = PacketForecaster(f.grammar)
from fandango.language.grammar import ParsingMode
for h in ["", "p", "pq", "pqp", "pqpq", "pqpqp", "pqpqpb", "pb"]:
    if h=="":
        tree = DerivationTree(NonTerminal("<start>"))
        trees=[tree]
    else:
        trees = list(f.grammar.parse_forest(h, mode=ParsingMode.INCOMPLETE))
    outs=set()
    for tree in trees:
        r = fc.predict(tree)
        opts = sorted((p, str(nt)) for p, fnt in r.parties_to_packets.items() for nt in fnt.nt_to_packet)
        outs.add((tuple(opts), len(r.complete_trees)>0))
    print(repr(h), len(trees), outs)
