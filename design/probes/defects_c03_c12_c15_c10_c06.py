import os, signal, logging
os.environ["FANDANGO_DISABLE_UPDATE_CHECK"]="1"
from fandango import Fandango
from fandango.language.tree import DerivationTree
def mk(spec, **kw): return Fandango(spec, use_stdlib=False, logging_level=logging.CRITICAL, **kw)

# C03: h=1, r=5
print("--- C03")
spec = '''<start> ::= <n> <a>{int(<n>)} <b>{int(<n>)} <c>{int(<n>)} <d>{int(<n>)} <e>{int(<n>)}
<n> ::= "1" | "2"
<a> ::= "a"
<b> ::= "b"
<c> ::= "c"
<d> ::= "d"
<e> ::= "e"
where int(<n>) >= 1
'''
f = mk(spec)
print(len(f.constraints), [type(c).__name__ for c in f.constraints])
try:
    sols = f.fuzz(desired_solutions=3, max_generations=20, population_size=10, random_seed=1)
    print([str(s) for s in sols])
except Exception as e: print("EXC", e)

# C12: cache truncation
print("--- C12")
f = mk('<start> ::= <a> | <b>\n<a> ::= "x"\n<b> ::= "x"\n')
g = f.grammar
print("first:", g.parse("x"))
print("forest after parse:", len(list(g.parse_forest("x"))))
f2 = mk('<start> ::= <a> | <b>\n<a> ::= "x"\n<b> ::= "x"\n')
print("forest fresh:", len(list(f2.grammar.parse_forest("x"))))

# C15: precedence
print("--- C15")
f = mk('<start> ::= (<a> <b>)* "c"\n<a> ::= "a"\n<b> ::= "b"\n')
print(repr(f.grammar))
f = mk('<start> ::= <a>{2,} \n<a> ::= "a"\n')
print(repr(f.grammar))

# C10: slice aliasing
print("--- C10")
f = mk('<start> ::= <a> <b> <a>\n<a> ::= "a"\n<b> ::= "b"\n')
t = f.grammar.parse("aba")
c0 = t.children[0]
print("parent before is root:", c0.parent is t)
s = t[0:2]
print("parent after slice is root:", c0.parent is t, type(c0.parent).__name__)

# C06: nontermination
print("--- C06")
def handler(*a): raise TimeoutError()
signal.signal(signal.SIGALRM, handler)
f = mk('<start> ::= <a>* "c"\n<a> ::= "x"?\n')
signal.alarm(5)
try:
    print(f.grammar.parse("xc"))
except TimeoutError: print("TIMEOUT parse")
signal.alarm(0)
