import os, logging, signal
os.environ["FANDANGO_DISABLE_UPDATE_CHECK"]="1"
from fandango import Fandango
def mk(spec): return Fandango(spec, use_stdlib=False, logging_level=logging.CRITICAL)
def handler(*a): raise TimeoutError()
signal.signal(signal.SIGALRM, handler)
def shape(t):
    if t.symbol.is_terminal: return repr(str(t.symbol.value()))
    return t.symbol.name()+"("+",".join(shape(c) for c in t.children)+")"
cases=[
 ('<start> ::= <a>* "c"\n<a> ::= "x"?\n', ["c","xc","xxc","x","cc"]),
 ('<start> ::= <a>+ "c"\n<a> ::= "x"?\n', ["c","xc","xxc"]),
 ('<start> ::= (<a>?)* "c"\n<a> ::= "x"\n', ["c","xc","xxc"]),
 ('<start> ::= <a>{2,3}\n<a> ::= "x"?\n', ["","x","xx","xxx","xxxx"]),
 ('<start> ::= <a>*\n<a> ::= <b>*\n<b> ::= "y"\n', ["","y","yy"]),
 ('<start> ::= <a> <a>\n<a> ::= <b> | <c>\n<b> ::= ""\n<c> ::= ""\n', [""]),
 ('<start> ::= <e>\n<e> ::= <e> "+" <t> | <t>\n<t> ::= "1" | ""\n', ["1+1","+","1+","","++"]),
 ('<start> ::= <l>\n<l> ::= <l> <l> | "a" | ""\n', ["", "a", "aa"]),
]
for spec, words in cases:
    for w in words:
        f=mk(spec)
        signal.alarm(10)
        try:
            trees=[shape(t) for t in f.grammar.parse_forest(w)]
            res=(len(trees), trees[:2])
        except TimeoutError: res="TIMEOUT"
        except Exception as e: res=("EXC", type(e).__name__)
        signal.alarm(0)
        print(repr(spec.splitlines()[0]), repr(w), res)
