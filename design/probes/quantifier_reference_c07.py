import os, random, logging, io, contextlib, collections
os.environ["FANDANGO_DISABLE_UPDATE_CHECK"]="1"
exec(open(os.path.join(os.path.dirname(os.path.abspath(__file__)),"selector_reference_c07.py")).read().split("rnd=random.Random(2)")[0])
rnd=random.Random(5)
f0=mk("")
trees=[f0.grammar.fuzz("<start>", max_nodes=rnd.choice([8,20,40])) for _ in range(40)]
def run(ctext, reffn, lazy=False):
    try: f=Fandango(GR+ctext+"\n", use_stdlib=False, logging_level=logging.CRITICAL, lazy=lazy)
    except Exception as e: return ("specerr", type(e).__name__, str(e)[:60])
    c=f.constraints[0]; mism=[]; agree=0
    for t in trees:
        root=T(t); exp=reffn(root)
        with contextlib.redirect_stderr(io.StringIO()):
            try: got=c.check(t)
            except Exception as e: got="EXC:"+type(e).__name__
        if got!=exp: mism.append((str(t),exp,got))
        else: agree+=1
    return (type(c).__name__, agree, len(mism), mism[:1])
N=lambda root,sym:[n for n in allnodes(root) if n[0]==sym]
cases=[
 ("where |<t>| >= 3", lambda r: len(N(r,"<t>"))>=3),
 ("where |<e>.<t>| >= 3", lambda r: len([c for n in N(r,"<e>") for c in n[2] if c[0]=="<t>"])>=3),
 ("where len(*<d>) >= 2", lambda r: len(N(r,"<d>"))>=2),
 ("where forall <v> in <d>: str(<v>) != '7'", lambda r: all(text(n)!="7" for n in N(r,"<d>"))),
 ("where exists <v> in <d>: str(<v>) == '7'", lambda r: any(text(n)=="7" for n in N(r,"<d>"))),
 ("where exists <v> in <start>.<e>: str(<v>) == 'x'", lambda r: any(text(c)=="x" for n in N(r,"<start>") for c in n[2] if c[0]=="<e>")),
 ("where forall <v> in <e>: exists <w> in <v>..<d>: str(<w>) == '1'", lambda r: all(any(text(m)=="1" for m in desc(n) if m[0]=="<d>") for n in N(r,"<e>"))),
 ("where any(str(v) == '7' for v in *<d>)", lambda r: any(text(n)=="7" for n in N(r,"<d>"))),
 ("where all(str(v) != '7' for v in *<d>)", lambda r: all(text(n)!="7" for n in N(r,"<d>"))),
 ("where all(len(str(v)) < 3 for v in *<e>.<t>)", lambda r: all(len(text(c))<3 for n in N(r,"<e>") for c in n[2] if c[0]=="<t>")),
 ("where '7' in [str(v) for v in *<d>]", lambda r: "7" in [text(n) for n in N(r,"<d>")]),
 ("where str(<d>) != '7' and len(str(<t>)) < 4", lambda r: all(text(n)!="7" for n in N(r,"<d>")) and all(len(text(n))<4 for n in N(r,"<t>"))),
 ("where str(<d>) == '7' or len(str(<start>)) < 6", lambda r: all(text(n)=="7" for n in N(r,"<d>")) or len(text(r))<6),
 ("where not (str(<d>) == '7')", lambda r: not all(text(n)=="7" for n in N(r,"<d>"))),
 ("where not str(<d>) == '7'", lambda r: all(not (text(n)=="7") for n in N(r,"<d>"))),
 ("where str(<d>) == str(<d>)", lambda r: all(text(a)==text(b) for a in N(r,"<d>") for b in N(r,"<d>"))),
 ("where len(str(<start>)) > 3 -> str(<d>) != '0'", lambda r: (not len(text(r))>3) or all(text(n)!="0" for n in N(r,"<d>"))),
]
for ctext, reffn in cases:
    for lazy in (False, True):
        print(lazy, ctext, "=>", run(ctext, reffn, lazy))
