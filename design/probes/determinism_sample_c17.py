import os, sys, json, subprocess, random, logging, io, contextlib, hashlib
os.environ["FANDANGO_DISABLE_UPDATE_CHECK"]="1"
SPECS=[]
rnd=random.Random(11)
def rnode(depth, nts):
    r=rnd.random()
    if depth<=0 or r<0.25:
        return rnd.choice(['"a"','"b"','"0"','"1"','"xy"','r"[a-c]{1,2}"']) if rnd.random()<0.5 else rnd.choice(nts)
    if r<0.45: return "("+" | ".join(rnode(depth-1,nts) for _ in range(rnd.randint(2,3)))+")"
    if r<0.7: return " ".join(rnode(depth-1,nts) for _ in range(rnd.randint(2,3)))
    op=rnd.choice(["*","+","?","{2}","{1,3}","{0,2}","{2,}"])
    return "("+rnode(depth-1,nts)+")"+op
def rspec():
    n=rnd.randint(2,4); nts=[f"<n{i}>" for i in range(n)]
    lines=["<start> ::= "+rnode(2,nts)]
    for i,nt in enumerate(nts):
        lines.append(f"{nt} ::= {rnode(2, nts[i+1:] or ['\"z\"'])} | \"{chr(99+i)}\"")
    cons=rnd.choice([[], ['where len(str(<start>)) >= 4'], ['where len(str(<start>)) % 2 == 0'],
        ['where str(<start>).count("a") >= 2'], [f'where |{nts[0]}| >= 2'], [f'where str({nts[-1]}) != "a"'],
        [f'where forall <x> in {nts[0]}: len(str(<x>)) < 5', f'where exists <y> in {nts[-1]}: str(<y>) != "q"']])
    return "\n".join(lines+cons)+"\n"
if len(sys.argv)>1 and sys.argv[1]=="child":
    from fandango import Fandango
    spec=open(sys.argv[2]).read(); seed=int(sys.argv[3])
    try:
        with contextlib.redirect_stderr(io.StringIO()):
            f=Fandango(spec,use_stdlib=False,logging_level=logging.CRITICAL)
            sols=f.fuzz(desired_solutions=12,population_size=15,max_generations=10,random_seed=seed,max_nodes=40)
            parses=[str(t) for s in sols[:3] for t in f.parse(str(s))]
        print(json.dumps({"sols":[str(s) for s in sols],"parses":parses}))
    except Exception as e:
        print(json.dumps({"exc":type(e).__name__}))
    sys.exit(0)
from multiprocessing.pool import ThreadPool
specs=[rspec() for _ in range(60)]
def job(i):
    p=f"/tmp/probe/det_{i}.fan"; open(p,"w").write(specs[i])
    outs=[]
    for rep in range(2):
        try:
            r=subprocess.run([sys.executable,__file__,"child",p,str(i)],capture_output=True,text=True,env={**os.environ,"PYTHONHASHSEED":"0"},timeout=40)
            outs.append(r.stdout.strip().splitlines()[-1] if r.stdout.strip() else "NOOUT "+r.stderr[-200:])
        except subprocess.TimeoutExpired:
            outs.append("HANG")
    os.remove(p)
    return i, outs[0]==outs[1], outs
with ThreadPool(16) as tp: res=tp.map(job, range(len(specs)))
bad=[r for r in res if not r[1]]
exc=sum(1 for r in res if '"exc"' in r[2][0]); hang=[r[0] for r in res if r[2][0]=="HANG"]
print("hangs",len(hang)); 
for i in hang[:4]: print("HANG SPEC:\n"+specs[i])
print("configs",len(res),"nondeterministic",len(bad),"runs-with-exception",exc)
for i,_,outs in bad[:3]: print(specs[i]); print(outs[0][:200]); print(outs[1][:200])
