import os, random, logging, itertools, io, contextlib, collections
os.environ["FANDANGO_DISABLE_UPDATE_CHECK"]="1"
from fandango import Fandango
GR='''<start> ::= <e> ";" <e>
<e> ::= <t> | <t> "+" <e> | "(" <e> ")"
<t> ::= <d> | <d> <t> | "x"
<d> ::= "0" | "1" | "7"
'''
def mk(c): return Fandango(GR+c+"\n", use_stdlib=False, logging_level=logging.CRITICAL)
# ---- reference semantics on (sym, children) tuples
def T(t):
    if t.symbol.is_terminal: return ("T", str(t.symbol.value()), [])
    return (t.symbol.name(), None, [T(c) for c in t.children])
def text(n): return n[1] if n[0]=="T" else "".join(text(c) for c in n[2])
def allnodes(n): 
    yield n
    for c in n[2]: yield from allnodes(c)
def desc(n):
    for c in n[2]: yield from allnodes(c)
def sel(s, root, scope):
    """s: list of steps: ("rule",sym) | (".",sym) | ("..",sym) | ("[]",i) | ("[:]",i,j)"""
    cur=None
    for st in s:
        if st[0]=="rule":
            cur=[scope[st[1]]] if st[1] in scope else [n for n in allnodes(root) if n[0]==st[1]]
            # impl order: children first then self (post-order); order irrelevant for verdicts
        elif st[0]==".": cur=[c for n in cur for c in n[2] if c[0]==st[1]]
        elif st[0]=="..": cur=[m for n in cur for m in desc(n) if m[0]==st[1]]          # docs reading: excludes self
        elif st[0]=="..self": cur=[m for n in cur for m in allnodes(n) if m[0]==st[1]]   # impl reading?
        elif st[0]=="[]": 
            nxt=[]
            for n in cur:
                nxt.append(n[2][st[1]])   # may raise IndexError
            cur=nxt
        elif st[0]=="[:]": cur=[("SLICE",None,n[2][st[1]:st[2]]) for n in cur]
    return cur
def render(s):
    out=""
    for st in s:
        if st[0]=="rule": out+=st[1]
        elif st[0]==".": out+="."+st[1]
        elif st[0] in ("..","..self"): out+=".."+st[1]
        elif st[0]=="[]": out+=f"[{st[1]}]"
        elif st[0]=="[:]": out+=f"[{'' if st[1] is None else st[1]}:{'' if st[2] is None else st[2]}]"
    return out
class Raised(Exception): pass
def atom_eval(kind, node, k):
    try:
        if kind=="streq": return text(node)==k
        if kind=="lengt": return len(text(node))>k
        if kind=="intgt": return int(text(node))>k
    except ValueError: raise Raised()
def atom_text(kind, S, k):
    if kind=="streq": return f'str({S}) == {k!r}'
    if kind=="lengt": return f'len(str({S})) > {k}'
    if kind=="intgt": return f'int({S}) > {k}'
def ref_atom(kind, s, k, root, scope):
    try: ms=sel(s, root, scope)
    except IndexError: return "selraise"
    ok=True
    for m in ms:
        try:
            if not atom_eval(kind,m,k): ok=False
        except Raised: ok=False
    return ok
rnd=random.Random(2)
SELS=[
 [("rule","<t>")], [("rule","<e>"),(".","<t>")], [("rule","<e>"),("..","<d>")], [("rule","<start>"),(".","<e>")],
 [("rule","<e>"),("[]",0)], [("rule","<t>"),("[]",1)], [("rule","<e>"),("[:]",1,None)], [("rule","<start>"),("[]",0),("..","<t>")],
 [("rule","<e>"),("..","<e>")], [("rule","<start>"),("[:]",0,2)], [("rule","<e>"),("[]",-1)], [("rule","<t>"),(".","<t>"),(".","<d>")],
]
f0=mk("")
trees=[]
for i in range(40):
    t=f0.grammar.fuzz("<start>", max_nodes=rnd.choice([8,20,40])); trees.append(t)
stats=collections.Counter(); examples={}
for s in SELS:
    for kind,k in [("streq","1"),("streq","x"),("lengt",1),("intgt",3)]:
        ctext="where "+atom_text(kind, render(s), k)
        try:
            f=mk(ctext)
        except Exception as e:
            stats[("specerr",render(s))]+=1; continue
        c=f.constraints[0]
        for t in trees:
            root=T(t)
            exp=ref_atom(kind,s,k,root,{})
            with contextlib.redirect_stderr(io.StringIO()):
                try: got=c.check(t)
                except Exception as e: got="EXC:"+type(e).__name__
            key=(render(s),kind)
            if exp=="selraise":
                stats[("selraise->"+str(got))]+=1
            elif got!=exp:
                stats[("MISMATCH",)+key]+=1; examples.setdefault(key,(str(t),exp,got,ctext))
            else: stats["agree"]+=1
for k,v in sorted(stats.items(), key=str): print(k,v)
for k,v in examples.items(): print("EX",k,v)
