import os, logging, random, itertools
os.environ["FANDANGO_DISABLE_UPDATE_CHECK"]="1"
from fandango import Fandango
from fandango.language.grammar import FuzzingMode
import fandango.evolution.algorithm as alg
import fandango.io.packetparser as pp
from fandango.errors import FandangoError
def mk(spec, **kw): return Fandango(spec, use_stdlib=False, logging_level=logging.CRITICAL, **kw)

class VClock:
    def __init__(self): self.now=0.0; self.on_sleep=None; self.sleeps=0
    def time(self): return self.now
    def sleep(self, d):
        self.sleeps+=1; self.now+=d
        if self.on_sleep: self.on_sleep()
clock=VClock(); alg.time=clock; pp.time=clock

spec = '''<start> ::= <F:X:ping> <X:F:pong> <F:Y:puff> <Y:F:paff>
<ping> ::= "ping"
<pong> ::= "po" <d> "ng"
<d> ::= "1" | "2"
<puff> ::= "puff"
<paff> ::= "paff"
where int(<d>) == 1
EVENTS = []
class F(FandangoParty):
    def __init__(self):
        super().__init__(connection_mode=ConnectionMode.OPEN)
    def send(self, message, recipient):
        EVENTS.append(("send", self.party_name, recipient, str(message)))
    def start(self): pass
    def stop(self): pass
class X(FandangoParty):
    def __init__(self):
        super().__init__(connection_mode=ConnectionMode.EXTERNAL)
    def start(self): pass
    def stop(self): pass
class Y(FandangoParty):
    def __init__(self):
        super().__init__(connection_mode=ConnectionMode.EXTERNAL)
    def start(self): pass
    def stop(self): pass
'''
def run(script):
    """script: dict trigger(sent msg) -> list of deliveries, each (party, fragment); delivered one per sleep"""
    f = mk(spec)
    env = f.grammar._global_variables
    EVENTS = env["EVENTS"]; io = env["FandangoIO"].instance()
    pending=[]; seen_sends=0
    def on_sleep():
        nonlocal seen_sends
        sends=[e for e in EVENTS if e[0]=="send"]
        while seen_sends < len(sends):
            pending.extend(script.get(sends[seen_sends][3], [])); seen_sends+=1
        if pending:
            party, frag = pending.pop(0)
            EVENTS.append(("deliver", party, frag))
            io.parties[party].receive(frag, party)
    clock.on_sleep=on_sleep; clock.now=0.0; clock.sleeps=0
    try:
        res = f.fuzz(mode=FuzzingMode.IO, population_size=1, random_seed=1)
        out=("ok", [(m.sender,m.recipient,str(m.msg)) for m in res[0].protocol_msgs()])
    except BaseException as e:
        out=("exc", type(e).__name__, str(e)[:80])
    return out, list(EVENTS), clock.sleeps, clock.now
import time as realtime
for name, script in [
  ("valid-1frag", {"ping":[("X","po1ng")], "puff":[("Y","paff")]}),
  ("valid-bytewise", {"ping":[("X",c) for c in "po1ng"], "puff":[("Y",c) for c in "paff"]}),
  ("violating", {"ping":[("X","po2ng")], "puff":[("Y","paff")]}),
  ("wrongtype", {"ping":[("X","paff")]}),
  ("truncated", {"ping":[("X","po1")]}),
  ("silent", {}),
  ("wrong-party", {"ping":[("Y","paff")]}),
]:
    t0=realtime.time()
    out, ev, sl, now = run(script)
    print(name, out, "sleeps",sl,"vtime",round(now,2),"real",round(realtime.time()-t0,3))
    print("   ", [e for e in ev if e[0]=="send"])
