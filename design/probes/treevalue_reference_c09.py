import os, itertools, copy
os.environ["FANDANGO_DISABLE_UPDATE_CHECK"]="1"
from fandango.language.tree import DerivationTree
from fandango.language.symbols import Terminal, NonTerminal
LEAVES = {"a":"a","e":"é","E":"€","x80":b"\x80","A":b"A","0":0,"1":1,"":""}
def leafbits(v):
    if isinstance(v,int): return [v]
    b = v.encode("utf-8") if isinstance(v,str) else v
    return [ (byte>>(7-i))&1 for byte in b for i in range(8)]
def ref(leaves):
    vals=[LEAVES[k] for k in leaves]
    bits=[b for v in vals for b in leafbits(v)]
    alltext=all(isinstance(v,str) for v in vals)
    # alignment: a bytes/text leaf must start at a byte boundary if any bits precede it
    pos=0; aligned=True
    for v in vals:
        if not isinstance(v,int) and pos%8!=0 and (v!="" ): aligned=False
        pos+=len(leafbits(v))
    r={"bits":"".join(map(str,bits))}
    if aligned and len(bits)%8==0:
        by=bytes(int("".join(map(str,bits[i:i+8])),2) for i in range(0,len(bits),8))
        r["bytes"]=by
        r["str"]="".join(vals) if alltext else by.decode("latin-1")
    elif alltext:
        r["str"]="".join(vals)
    return r
def shapes(seq):
    # all nestings: flat, and split into two groups nested
    yield ("flat", seq)
    for i in range(1,len(seq)):
        yield ("L", (seq[:i], seq[i:]))
def build(shape):
    kind, data = shape
    mk=lambda k: DerivationTree(Terminal(LEAVES[k]))
    if kind=="flat": return DerivationTree(NonTerminal("<s>"), [mk(k) for k in data])
    l,r=data
    return DerivationTree(NonTerminal("<s>"), [DerivationTree(NonTerminal("<l>"),[mk(k) for k in l]), DerivationTree(NonTerminal("<r>"),[mk(k) for k in r])])
def obs(t, view):
    try:
        if view=="str": return ("ok", str(t))
        if view=="bytes": return ("ok", bytes(t))
        if view=="bits": return ("ok", t.to_bits())
    except Exception as e: return ("exc", type(e).__name__)
disc={}
n=0
for L in range(1,4):
  for seq in itertools.product(LEAVES.keys(), repeat=L):
    # restrict bits so that 8 bits possible only via L small: add explicit 8-bit group case below
    r=ref(seq)
    for shape in shapes(seq):
        for order in itertools.permutations(["str","bytes","bits"],3):
            t=build(shape); n+=1
            for view in order:
                o=obs(t,view)
                exp=r.get(view)
                if exp is None:
                    ok = (o[0]=="exc") or True   # undefined in reference: anything goes
                else:
                    ok = (o==("ok",exp))
                if not ok:
                    disc.setdefault((view, tuple(type(LEAVES[k]).__name__ for k in seq)), []).append((seq,shape[0],order,o,exp))
print("cases",n,"discrepancy classes",len(disc))
for k,v in sorted(disc.items(), key=lambda kv: str(kv[0]))[:40]:
    print(k, len(v), v[0])
# 8-bit groups
for pre in ["a","e","E","A","x80",""]:
    for post in ["","a","A"]:
        seq=[pre]+["0","1","0","0","0","0","0","1"]+([post] if post else [])
        t=build(("flat",seq)); r=ref(seq)
        res={v:obs(t,v) for v in ["str","bytes","bits"]}
        bad=[v for v in res if r.get(v) is not None and res[v]!=("ok",r[v])]
        print(seq[0]+"+8bits+"+post, "BAD" if bad else "ok", bad, {v:res[v] for v in bad}, {v:r[v] for v in bad})
