import os, logging, sys, json, subprocess, io, contextlib
os.environ["FANDANGO_DISABLE_UPDATE_CHECK"]="1"
from fandango import Fandango
import fandango.language.grammar.nodes as nodes
def mk(spec, **kw): return Fandango(spec, use_stdlib=False, logging_level=logging.CRITICAL, **kw)
A='''<start> ::= <d>+
<d> ::= "0"|"1"
where len(str(<start>)) > 40
'''
B='''<start> ::= <x>* "."
<x> ::= "a" | "b"
'''
def runB():
    f=mk(B); return [str(s) for s in f.fuzz(desired_solutions=8,population_size=10,random_seed=5,max_generations=5)]
if sys.argv[1]=="alone":
    print(json.dumps([runB(), nodes.MAX_REPETITIONS]))
else:
    fa=mk(A)
    with contextlib.redirect_stderr(io.StringIO()):
        fa.fuzz(desired_solutions=3,population_size=10,random_seed=1,max_generations=30)
    cap=nodes.MAX_REPETITIONS
    print(json.dumps([runB(), cap]))
