import os, sys, ast, glob, collections, io, contextlib, json, signal
os.environ["FANDANGO_DISABLE_UPDATE_CHECK"]="1"
from multiprocessing import Pool
class Norm(ast.NodeTransformer):
    def visit_JoinedStr(self, node):
        self.generic_visit(node)
        if all(isinstance(v, ast.Constant) and isinstance(v.value,str) for v in node.values):
            return ast.copy_location(ast.Constant("".join(v.value for v in node.values)), node)
        # merge adjacent constants
        vals=[]
        for v in node.values:
            if vals and isinstance(v, ast.Constant) and isinstance(vals[-1], ast.Constant): vals[-1]=ast.Constant(vals[-1].value+v.value)
            else: vals.append(v)
        node.values=vals; return node
def dump(src):
    t=ast.parse(src); t=Norm().visit(t); return ast.dump(t)
def handler(*a): raise TimeoutError()
def work(src):
    from fandango.language.parse.parse_tree import parse_tree
    from fandango.language.parse.spec import CachedFandangoSpec
    signal.signal(signal.SIGALRM, handler); signal.alarm(20)
    try:
        with contextlib.redirect_stderr(io.StringIO()), contextlib.redirect_stdout(io.StringIO()):
            tree = parse_tree("<s>", src)
            out = CachedFandangoSpec(tree, src, filename="<s>").code_text
    except TimeoutError: return ("timeout", src, "")
    except BaseException as e:
        signal.alarm(0); return ("rejected", src, type(e).__name__)
    signal.alarm(0)
    try:
        same = dump(out)==dump(src)
    except SyntaxError: return ("unparseable-output", src, out)
    return ("same" if same else "DIFFERENT", src, out)
def first_diff(a,b):
    # locate smallest differing subexpression class
    ta=ast.parse(a); tb=ast.parse(b)
    def walk(x,y,path):
        if type(x)!=type(y): return (path+[type(x).__name__], type(y).__name__)
        for f in x._fields:
            vx=getattr(x,f,None); vy=getattr(y,f,None)
            if isinstance(vx,list) and isinstance(vy,list):
                if len(vx)!=len(vy): return (path+[type(x).__name__+"."+f], f"len {len(vx)}->{len(vy)}")
                for i,(p,q) in enumerate(zip(vx,vy)):
                    if isinstance(p,ast.AST) and isinstance(q,ast.AST):
                        r=walk(p,q,path+[type(x).__name__+"."+f]);
                        if r: return r
                    elif p!=q: return (path+[type(x).__name__+"."+f], f"{p!r}->{q!r}")
            elif isinstance(vx,ast.AST) and isinstance(vy,ast.AST):
                r=walk(vx,vy,path+[type(x).__name__+"."+f])
                if r: return r
            elif isinstance(vx,ast.AST) != isinstance(vy,ast.AST) or (not isinstance(vx,ast.AST) and vx!=vy):
                return (path+[type(x).__name__+"."+f], f"{str(vx)[:20]!r}->{str(vy)[:20]!r}")
        return None
    r=walk(Norm().visit(ta),Norm().visit(tb),[])
    return r
if __name__=="__main__":
    import sysconfig
    lib=sysconfig.get_paths()["stdlib"]
    mods=sorted(glob.glob(lib+"/*.py"))[:int(sys.argv[1])]
    stmts=[]
    for m in mods:
        try: t=ast.parse(open(m,encoding="utf-8").read())
        except Exception: continue
        for st in t.body:
            # also split class bodies into methods to get smaller units
            units=[st]
            if isinstance(st, ast.ClassDef): units=[s for s in st.body if isinstance(s,(ast.FunctionDef,ast.AsyncFunctionDef,ast.Assign))]
            for u in units:
                try: src=ast.unparse(u)+"\n"
                except Exception: continue
                if len(src)<3000: stmts.append(src)
    stmts=list(dict.fromkeys(stmts))
    print("statements",len(stmts), "from", len(mods), "modules", flush=True)
    with Pool(16) as p: res=p.map(work, stmts, chunksize=16)
    c=collections.Counter(r[0] for r in res); print(dict(c))
    rej=collections.Counter(r[2] for r in res if r[0]=="rejected"); print("rejections:", dict(rej))
    classes=collections.Counter(); ex={}
    for kind,src,out in res:
        if kind=="DIFFERENT":
            d=first_diff(src,out); key=(d[0][-1] if d else "?", d[1] if d else "?")
            classes[key]+=1; ex.setdefault(key,(src[:160],out[:160]))
    for k,v in classes.most_common(40): print(v,k); 
    json.dump([(k,v,ex[k]) for k,v in classes.most_common()], open("/tmp/probe/c08_classes.json","w"), default=str)
