import os, logging, ast, textwrap
os.environ["FANDANGO_DISABLE_UPDATE_CHECK"]="1"
from fandango import Fandango
from fandango.language.parse.parse_tree import parse_tree
from fandango.language.parse.spec import CachedFandangoSpec
def translate(py):
    tree = parse_tree("<s>", py)
    return CachedFandangoSpec(tree, py, filename="<s>").code_text
progs = [
 "x = a if b else c\n",
 "def f(a, /, b, *, c=1, **k):\n    return a\n",
 "def f(a, b=2, *args, c, d=4, **kw): pass\n",
 "x = lambda a, *b, c=1, **d: a\n",
 "x = [i for i in range(3) if i if i > 1]\n",
 "x = {**a, 'b': 1}\n",
 "x = f(*a, b=1, **c)\n",
 "x = a < b <= c != d\n",
 "x = not a in b\n",
 "x = a not in b\n",
 "x = a is not b\n",
 "x = -a ** -b\n",
 "x = (a, *b)\n",
 "a, *b = c\n",
 "x[1:2, ::3] = 1\n",
 "x = f'{a!r:>{w}} {b=}'\n",
 "x = 'a' 'b'\n",
 "x = b'a' b'\\x00'\n",
 "async def f():\n    await g()\n",
 "for i in a:\n    pass\nelse:\n    pass\n",
 "try:\n    pass\nexcept (A, B) as e:\n    raise X from e\nelse:\n    pass\nfinally:\n    pass\n",
 "with a as b, c:\n    pass\n",
 "x: int = 1\n",
 "x += 1; y @= 2; z //= 3; w >>= 1\n",
 "global a, b\n",
 "del a, b[0]\n",
 "assert a, 'm'\n",
 "from . import a\nfrom ..b import c as d, e\nimport f.g as h\n",
 "@d1\n@d2(3)\nclass C(B, metaclass=M):\n    x = 1\n",
 "x = 1_000 + 0x1F + 1e3 + 2j\n",
 "x = a @ b % c // d\n",
 "x = yield_ if a else (yield)\n",
 "def g():\n    x = yield a\n    yield from b\n",
 "x = {a for a in b}\nx = {a: b for a, b in c}\nx = (a for a in b)\n",
 "x = a[1]\nx = a[1:]\nx = a[:, 1]\nx = a[...]\n",
 "while a:\n    break\nelse:\n    continue_ = 1\n",
 "x = a if b else c if d else e\n",
 "x = (a := 1)\n",
 "x = a and b or c and not d\n",
 "x = ~a | b ^ c & d << e >> f\n",
 "x = r'\\d' + '''a\nb'''\n",
 "def f(a: int = 1, *args: str, b: 'T' = None, **kw: Any) -> None: ...\n",
 "x = [*a, *b]\n",
 "x = None; y = True; z = False; w = ...\n",
 "print(a, end='')\n",
 "if a:\n    pass\nelif b:\n    pass\nelse:\n    pass\n",
 "x = f(a)(b).c[d]\n",
 "class A: pass\n",
 "nonlocal_ = 1\n",
 "x = a if b else lambda: c\n",
 "x = lambda: (yield)\n",
]
import warnings
bad=0
for p in progs:
    try:
        out = translate(p)
        same = ast.dump(ast.parse(out)) == ast.dump(ast.parse(p))
        if not same:
            bad+=1; print("MISMATCH", repr(p), "->", repr(out))
    except BaseException as e:
        print("ERR", repr(p), type(e).__name__, str(e)[:100])
print("done", len(progs), bad)
