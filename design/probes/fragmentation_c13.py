import os, signal, logging, itertools
os.environ["FANDANGO_DISABLE_UPDATE_CHECK"]="1"
from fandango import Fandango
from fandango.language.tree import DerivationTree
from fandango.language.symbols import Terminal, NonTerminal
from fandango.language.grammar import ParsingMode
from fandango.language.grammar.parser.iterative_parser import IterativeParser
def mk(spec, **kw): return Fandango(spec, use_stdlib=False, logging_level=logging.CRITICAL, **kw)
def handler(*a): raise TimeoutError()
signal.signal(signal.SIGALRM, handler)
def shape(t):
    if t.symbol.is_terminal: return repr(str(t.symbol.value()))
    return t.symbol.name()+"("+",".join(shape(c) for c in t.children)+")"

print("--- C13 distinct trees?")
f = mk('<start> ::= <a> <b>\n<a> ::= r"[a-c]+"\n<b> ::= "cd" | "d"\n')
def inc(rules, word, cuts):
    p = IterativeParser(rules); p.new_parse("<start>", ParsingMode.COMPLETE)
    pieces=[]; prev=0
    for c in cuts+[len(word)]:
        pieces.append(word[prev:c]); prev=c
    res=None
    for piece in pieces:
        res=[shape(p.collapse(t)) for t,c in p.consume(piece) if c]
    return pieces,sorted(set(res))
for cuts in ([],[2],[1,2,3]):
    print(inc(f.grammar.rules,"abcd",cuts))
print("whole parse_forest:", [shape(t) for t in f.grammar.parse_forest("abcd")])
# unique-derivation but non-greedy
f = mk('<start> ::= <a> <b>\n<a> ::= r"[a-c]+"\n<b> ::= "cd"\n')
print("unique nongreedy whole:", [shape(t) for t in f.grammar.parse_forest("abcd")])
for cuts in ([],[2],[1,2,3]):
    print(inc(f.grammar.rules,"abcd",cuts))

print("--- C13 literal cut, bytes, bits")
f = mk('<start> ::= "hello" <x>\n<x> ::= b"\\x01\\x02" | "wo"\n')
for w in ["hellowo"]:
    for cuts in ([],[3],[5],[6],[1,2,3,4,5,6]):
        print(inc(f.grammar.rules,w,cuts))
f = mk('<start> ::= <bit>{8} <bit>{8}\n<bit> ::= 0 | 1\n')
for cuts in ([],[1]):
    p = IterativeParser(f.grammar.rules); p.new_parse("<start>", ParsingMode.COMPLETE)
    w=b"\x41\x80"; prev=0; res=None
    for c in cuts+[len(w)]:
        res=[(p.collapse(t).to_bits(),cc) for t,cc in p.consume(w[prev:c])]; prev=c
    print(cuts,res)
