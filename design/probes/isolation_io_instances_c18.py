import os, logging, io, contextlib
os.environ["FANDANGO_DISABLE_UPDATE_CHECK"]="1"
from fandango import Fandango
from fandango.language.grammar import FuzzingMode
def spec(tag, reply):
    return f'''<start> ::= <F:X:ping> <X:F:pong>
<ping> ::= "ping{tag}"
<pong> ::= "{reply}"
SENT = []
class F(FandangoParty):
    def __init__(self):
        super().__init__(connection_mode=ConnectionMode.OPEN)
    def send(self, message, recipient):
        SENT.append(("{tag}", str(message)))
        self.receive("{reply}", "X")
    def start(self): pass
    def stop(self): pass
class X(FandangoParty):
    def __init__(self):
        super().__init__(connection_mode=ConnectionMode.EXTERNAL)
    def start(self): pass
    def stop(self): pass
'''
def run(f):
    try:
        with contextlib.redirect_stderr(io.StringIO()):
            r=f.fuzz(mode=FuzzingMode.IO, population_size=1, random_seed=1)
        return [(m.sender,str(m.msg)) for m in r[0].protocol_msgs()]
    except BaseException as e: return ("exc",type(e).__name__,str(e)[:80])
A=Fandango(spec("A","pongA"),use_stdlib=False,logging_level=logging.CRITICAL)
print("A alone:", run(A), A.grammar._global_variables["SENT"])
A=Fandango(spec("A","pongA"),use_stdlib=False,logging_level=logging.CRITICAL)
B=Fandango(spec("B","pongB"),use_stdlib=False,logging_level=logging.CRITICAL)
print("A after B was constructed:", run(A), "A.SENT", A.grammar._global_variables["SENT"], "B.SENT", B.grammar._global_variables["SENT"])
print("then B:", run(B), "B.SENT", B.grammar._global_variables["SENT"])
