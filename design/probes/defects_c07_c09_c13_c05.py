import os, signal, logging, itertools
os.environ["FANDANGO_DISABLE_UPDATE_CHECK"]="1"
from fandango import Fandango
from fandango.language.tree import DerivationTree
from fandango.language.symbols import Terminal, NonTerminal
from fandango.language.grammar import ParsingMode
from fandango.language.grammar.parser.iterative_parser import IterativeParser
def mk(spec, **kw): return Fandango(spec, use_stdlib=False, logging_level=logging.CRITICAL, **kw)
def handler(*a): raise TimeoutError()
signal.signal(signal.SIGALRM, handler)

print("--- C07/C04 exception => accepted?")
f = mk('<start> ::= <x>\n<x> ::= "a" | "7"\nwhere int(<x>) > 5\n')
print("parse 'a' accepted:", [str(t) for t in f.parse("a")])
print("parse '7' accepted:", [str(t) for t in f.parse("7")])
f = mk('<start> ::= <x>\n<x> ::= "a" | "7"\nwhere int(<x>) > 5 and True\n')
print(type(f.constraints[0]).__name__, "parse 'a' accepted:", [str(t) for t in f.parse("a")])

print("--- C09 latin1")
t = DerivationTree(NonTerminal("<s>"), [DerivationTree(Terminal("é")), *[DerivationTree(Terminal(b)) for b in [0,1,0,0,0,0,0,1]]])
print(repr(str(t)), bytes(t), bytes(t).decode("latin-1")==str(t))
t = DerivationTree(NonTerminal("<s>"), [DerivationTree(Terminal("€")), *[DerivationTree(Terminal(b)) for b in [0,1,0,0,0,0,0,1]]])
try: print(repr(str(t)))
except Exception as e: print("EXC", type(e).__name__, e)
print(bytes(t))

print("--- C13 fragmentation")
def all_parses_incremental(rules, word, cuts):
    p = IterativeParser(rules); p.new_parse("<start>", ParsingMode.COMPLETE)
    pieces=[]; prev=0
    for c in cuts+[len(word)]:
        pieces.append(word[prev:c]); prev=c
    res=None
    for piece in pieces:
        res=[(str(p.collapse(t)),c) for t,c in p.consume(piece)]
    return pieces,res
f = mk('<start> ::= <a> <b>\n<a> ::= r"[a-c]+"\n<b> ::= "cd" | "d"\n')
w="abcd"
for r in range(0,len(w)):
    for cuts in itertools.combinations(range(1,len(w)), r):
        signal.alarm(5)
        try:
            print(all_parses_incremental(f.grammar.rules, w, list(cuts)))
        except Exception as e: print(cuts, "EXC", type(e).__name__, e)
        signal.alarm(0)

print("--- C05 empty regex")
f = mk('<start> ::= <a> "x"\n<a> ::= r"[0-9]*"\n')
print([str(t) for t in f.parse("x")], [str(t) for t in f.parse("12x")])
print("--- C18")
import fandango.language.grammar.nodes as nodes
print(nodes.MAX_REPETITIONS)
