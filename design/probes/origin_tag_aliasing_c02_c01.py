import os, logging, io, contextlib
os.environ["FANDANGO_DISABLE_UPDATE_CHECK"]="1"
from fandango import Fandango
from fandango.language.symbols import NonTerminal
from fandango.evolution.evaluation import Evaluator
spec='''<start> ::= <rec>{1,3}
<rec> ::= <len> <item>{int(<len>)} "."
<len> ::= "1" | "2" | "3"
<item> ::= "a" | "b" <item>?
'''
f=Fandango(spec,use_stdlib=False,logging_level=logging.CRITICAL); g=f.grammar
t=g.parse("1b.2bb.")
recs=t.find_direct_trees(NonTerminal("<rec>"))
# crossover-like step: replace the second <rec> by (a copy of) the first one  -> "1b.1b."
t2=t.replace(g, recs[1], recs[0])
print(str(t2))
recs2=t2.find_direct_trees(NonTerminal("<rec>"))
# mutation-like step: replace <len> of the second record by a fresh "3"
len2=recs2[1].children[0]
new_len=g.parse("3", start="<len>")
t3=t2.replace(g, len2, new_len)
print(str(t3), [ (str(n), n.origin_repetitions) for n in t3.find_all_trees(NonTerminal("<item>")) if n.parent.symbol.name()=="<rec>"])
ev=Evaluator(g, f.constraints, 1.0, 5, 1.0)
gen=ev.evaluate_individual(t3); emitted=[]
try:
    while True: emitted.append(next(gen))
except StopIteration as st: res=st.value
print("fitness",res[0],"emitted as solution:",[str(x) for x in emitted])
print("accepted by Fandango.parse? ", [str(x) for x in f.parse("1b.3b.")])
