import os, logging
os.environ["FANDANGO_DISABLE_UPDATE_CHECK"]="1"
from fandango import Fandango
from fandango.language.parse.parse_spec import parse_content
def conv(text, which):
    Fandango.parser = which
    try:
        spec = parse_content(text, filename="<s>", use_cache=False)
        return ("ok", repr(spec))
    except BaseException as e:
        return ("err", type(e).__name__+": "+str(e)[:60])
cases = [
 "def f():\n    x = 1\n    return x\n<start> ::= 'a'\n",
 "def f():\n\tx = 1\n\treturn x\n<start> ::= 'a'\n",
 "def f():\n    if 1:\n        x = 1\n    return 2\n<start> ::= 'a'\n",
 "def f():\n    if 1:\n        x = 1\n<start> ::= 'a'\n",
 "def f():\n    x = (1,\n  2)\n    return x\n<start> ::= 'a'\n",
 "def f():\r\n    x = 1\r\n    return x\r\n<start> ::= 'a'\r\n",
 "def f():\n    x = 1\n\n    # c\n    return x\n<start> ::= 'a'",
 "def f():\n    x = 1\n  y = 2\n<start> ::= 'a'\n",
 "def f():\n    x = 1",
 "def f():\n    x = 1\n    ",
 "<start> ::= 'a'\n  | 'b'\n",
 "<start> ::= 'a'\n    | 'b'\n<b> ::= 'c'\n",
 "  <start> ::= 'a'\n",
 "def f():\n \tx = 1\n        y = 2\n<start> ::= 'a'\n",
 "if 1:\n    def g():\n        return 1\n    y = 2\nz = 3\n<start> ::= 'a'\n",
 "x = [\n1,\n2]\n<start> ::= 'a'\n",
 "def f():\n    return 1\n\n\n\n<start> ::= 'a'\n\n\n",
 "def f():\n    '''doc\n  string'''\n    return 1\n<start> ::= 'a'\n",
 "def f(): return 1\n<start> ::= 'a'\n",
 "def f():\n    x = 1 \\\n + 2\n    return x\n<start> ::= 'a'\n",
 "<start> ::= 'a' # c\n# d\n   # e\nwhere True\n",
 "def f():\n    pass\n    \n\t\n    pass\n<start> ::= 'a'\n",
 "def f():\n\tif 1:\n\t\tpass\n        pass\n<start> ::= 'a'\n",
]
for c in cases:
    a=conv(c,"python"); b=conv(c,"cpp")
    print("SAME" if a==b else "DIFF", a[0], b[0], repr(c)[:50], "" if a==b else (a[1][:70], b[1][:70]))
