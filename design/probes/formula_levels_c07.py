import os, logging, io, contextlib
os.environ["FANDANGO_DISABLE_UPDATE_CHECK"]="1"
from fandango import Fandango
GR='''<start> ::= <e> ";" <e>
<e> ::= <t> | <t> "+" <e> | "(" <e> ")"
<t> ::= <d> | <d> <t> | "x"
<d> ::= "0" | "1" | "7"
'''
def show(c, ind=0):
    n=type(c).__name__
    extra=""
    if hasattr(c,"expression"): extra=" expr="+c.expression[:60]
    if hasattr(c,"_left"): extra=f" {c._left[:25]} {c._operator.value} {c._right[:25]}"
    print(" "*ind+n+extra)
    for sub in getattr(c,"constraints",[]): show(sub, ind+2)
    if hasattr(c,"statement"): show(c.statement, ind+2)
for text in [
 "(len(str(<e>)) > 1 and len(str(<d>)) > 1)",
 "(str(<d>) == '7' or str(<d>) == '1') and len(str(<t>)) > 0",
 "len(str(<t>)) > 0 and (str(<d>) == '7' or str(<d>) == '1')",
 "str(<d>) == '7' or str(<d>) == '1' and len(str(<t>)) > 0",
 "forall <v> in <e>: (len(str(<v>)) > 0 and exists <w> in <v>..<d>: str(<w>) == '1')",
 "forall <v> in <e>: len(str(<v>)) > 0 and str(<v>) != 'x'",
 "(forall <v> in <e>: len(str(<v>)) > 0) and str(<d>) != '0'",
 "len(str(<e>)) > (1 if True else 2)",
 "str(<d>[-1:2]) == '1'",
 "str(<t>[-1]) == '1'",
]:
    print("##", text)
    try:
        with contextlib.redirect_stderr(io.StringIO()):
            f=Fandango(GR+"where "+text+"\n", use_stdlib=False, logging_level=logging.CRITICAL)
        show(f.constraints[0],2)
        for k,v in list(getattr(f.constraints[0],"searches",{}).items())[:3]: print("     search", type(v).__name__, v.format_as_spec())
    except Exception as e: print("   ERR", type(e).__name__, str(e)[:80])
