import os, logging, io, contextlib
os.environ["FANDANGO_DISABLE_UPDATE_CHECK"]="1"
from fandango import Fandango
def mk(spec): return Fandango(spec, use_stdlib=False, logging_level=logging.CRITICAL)
def words(f, n=60, seed=1):
    import random; random.seed(seed)
    out=set()
    for i in range(n):
        t=f.grammar.fuzz("<start>", max_nodes=12)
        try: out.add(bytes(t) if t.should_be_serialized_to_bytes() else str(t))
        except Exception as e: out.add("EXC"+type(e).__name__)
    return out
rhs_list = [
 '(<a> <b>)*', '(<a> <b>)+', '(<a> <b>)?', '(<a> <b>){2}', '(<a> | <b>)*', '(<a> | <b>) <a>', '<a> | <b> <a>', '(<a>* <b>)+',
 '<a>{2,}', '<a>{,2}', '<a>{0,1}', '<a>{1,3} <b>', '((<a>))', '(<a> (<b> | <a>))?',
 '"it\'s"', "'say \"hi\"'", '"a\\\\b"', '"tab\\there"', '"\\x00\\x7f"', '"é€"', 'b"\\xff\\x00"', 'b"a\'b"', 'r"[a-z]+\\d"', "r'[\"\\']'", 'rb"\\x00+"', '"" <a>', '0 1 <a>',
 '"a" "b"*', '("a" "b")*', '<a>?+', '(<a>?)+',
]
for rhs in rhs_list:
    spec=f'<start> ::= {rhs}\n<a> ::= "a"\n<b> ::= "b"\n'
    try:
        with contextlib.redirect_stderr(io.StringIO()):
            f=mk(spec)
    except Exception as e:
        print("SRCERR", rhs, type(e).__name__, str(e)[:60]); continue
    printed=repr(f.grammar)
    try:
        with contextlib.redirect_stderr(io.StringIO()):
            f2=mk(printed+"\n")
    except Exception as e:
        print("REPARSE-ERR", rhs, "->", printed.splitlines()[0], type(e).__name__, str(e)[:60]); continue
    printed2=repr(f2.grammar)
    w1=words(f); w2=words(f2)
    status="same" if w1==w2 else "DIFF"
    fix = "fixpoint" if printed==printed2 else "NOFIX"
    if status!="same" or fix!="fixpoint":
        print(status, fix, rhs, "->", printed.splitlines()[0], "| only1:", sorted(w1-w2, key=str)[:3], "only2:", sorted(w2-w1,key=str)[:3])
    else: print("ok  ", rhs, "->", printed.splitlines()[0])
