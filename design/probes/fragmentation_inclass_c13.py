import os, logging, itertools, signal, collections
os.environ["FANDANGO_DISABLE_UPDATE_CHECK"]="1"
from fandango import Fandango
from fandango.language.grammar import ParsingMode
from fandango.language.grammar.parser.iterative_parser import IterativeParser
def mk(spec): return Fandango(spec, use_stdlib=False, logging_level=logging.CRITICAL)
def handler(*a): raise TimeoutError()
signal.signal(signal.SIGALRM, handler)
def shape(t):
    if t.symbol.is_terminal:
        v=t.symbol.value()
        return repr(v.to_bits() if v._value is None else (v._value))
    return t.symbol.name()+"("+",".join(shape(c) for c in t.children)+")"
def inc(rules, word, cuts, start="<start>"):
    p = IterativeParser(rules); p.new_parse(start, ParsingMode.COMPLETE)
    prev=0; res=[]; cont=[]
    for c in list(cuts)+[len(word)]:
        res=[shape(p.collapse(t)) for t,comp in p.consume(word[prev:c]) if comp]; prev=c
        cont.append(p.can_continue())
    return sorted(set(res)), cont
CASES=[
 ('<start> ::= "GET " <path> " HTTP" <v>?\n<path> ::= r"/[a-z]+"\n<v> ::= "/1." r"[01]"\n', ["GET /ab HTTP", "GET /ab HTTP/1.1", "GET /a HTTP/1.0"]),
 ('<start> ::= <n> "," <n>\n<n> ::= r"[0-9]+"\n', ["1,2","12,345"]),
 ('<start> ::= <k>{2,3}\n<k> ::= "ab" | "abc" | "c"\n', ["abab","abcab","abcc","ababc"]),
 ('<start> ::= b"\\x01\\x02" <len> <body>\n<len> ::= b"\\x00" | b"\\x01"\n<body> ::= rb"[\\x10-\\x20]*"\n', [b"\x01\x02\x00", b"\x01\x02\x01\x10\x11"]),
 ('<start> ::= <bit>{4} <nib> <byte>\n<bit> ::= 0 | 1\n<nib> ::= 1 0 1 0 | 0 1 0 1\n<byte> ::= b"A" | b"B"\n', [b"\xfaA", b"\x05B"]),
 ('<start> ::= <w> (" " <w>)*\n<w> ::= r"[a-z]+"\n', ["ab cd","a b c"]),
 ('<start> ::= "é" <x> "€"\n<x> ::= "ü" | "u"\n', ["éü€","éu€"]),
]
tot=0; bad=collections.Counter(); ex={}
for spec, words in CASES:
    f=mk(spec)
    for w in words:
        n=len(w)
        whole,_=inc(f.grammar.rules, w, [])
        pf=sorted(set(shape(t) for t in f.grammar.parse_forest(w)))
        if pf!=whole: bad[("parse_forest != consume(whole)",spec.splitlines()[0])]+=1
        for r in range(0,n):
            for cuts in itertools.combinations(range(1,n), r):
                tot+=1
                signal.alarm(10)
                try: got,cont=inc(f.grammar.rules, w, cuts)
                except TimeoutError: got,cont="TIMEOUT",[]
                except Exception as e: got,cont="EXC:"+type(e).__name__,[]
                signal.alarm(0)
                if got!=whole:
                    bad[("set differs",spec.splitlines()[0])]+=1; ex.setdefault(spec.splitlines()[0],(w,cuts,got,whole))
                # can_continue must be True at every proper prefix (an extension exists: w itself)
                if isinstance(cont,list) and not all(cont[:-1]):
                    bad[("can_continue false on viable prefix",spec.splitlines()[0])]+=1; ex.setdefault("cc"+spec.splitlines()[0],(w,cuts,cont))
print("schedules",tot)
for k,v in bad.items(): print(v,k)
for k,v in ex.items(): print("EX",k,v)
