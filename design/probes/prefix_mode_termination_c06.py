import os, logging, signal
os.environ["FANDANGO_DISABLE_UPDATE_CHECK"]="1"
from fandango import Fandango
from fandango.language.grammar import ParsingMode
def mk(spec): return Fandango(spec, use_stdlib=False, logging_level=logging.CRITICAL)
def handler(*a): raise TimeoutError()
signal.signal(signal.SIGALRM, handler)
for spec, words in [
 ('<start> ::= "a" ("b"? "c")+ "z"?\n', ["a","ac","abc","acbc"]),
 ('<start> ::= "a" ("b"? "c")* "z"?\n', ["a","ac"]),
 ('<start> ::= "a" (<o> "c")+\n<o> ::= "b"?\n', ["a","ac"]),
 ('<start> ::= "a" ("b" "c")+ "z"?\n', ["a","ab","abc"]),
 ('<start> ::= "a" ("b"? "c"){1,3} "z"?\n', ["a","ac"]),
 ('<start> ::= "a" "b"? "c"\n', ["a","ab"]),
]:
    for w in words:
        for mode in (ParsingMode.INCOMPLETE, ParsingMode.COMPLETE):
            f=mk(spec)
            signal.alarm(5)
            try: res=len(list(f.grammar.parse_forest(w, mode=mode)))
            except TimeoutError: res="TIMEOUT"
            signal.alarm(0)
            print(repr(spec.strip().splitlines()[0]), repr(w), mode.name, res)
