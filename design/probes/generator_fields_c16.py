import os, logging, random, io, contextlib, sys, collections
os.environ["FANDANGO_DISABLE_UPDATE_CHECK"]="1"
from fandango import Fandango
from fandango.language.symbols import NonTerminal
from fandango.language.tree import DerivationTree
def mk(spec, **kw): return Fandango(spec, use_stdlib=False, logging_level=logging.CRITICAL, **kw)
SPECS=['''
import random
CALLS = []
def g_len(x):
    v = str(len(str(x)))
    CALLS.append(("<len>", [str(x)], v))
    return v
def g_tag():
    v = random.choice(["aa","b","ccc"])
    CALLS.append(("<tag>", [], v))
    return v
def g_sum(a, b):
    v = str((int(str(a)) + int(str(b))) % 10)
    CALLS.append(("<chk>", [str(a), str(b)], v))
    return v
<start> ::= <tag> ":" <body> ":" <len> ":" <chk> <tail>
<tag> ::= <ch>+ := g_tag()
<body> ::= <ch>{1,5}
<ch> ::= "a" | "b" | "c"
<len> ::= <digit>+ := g_len(<body>)
<chk> ::= <digit> := g_sum(<p>, <q>)
<p> ::= <digit>
<q> ::= <digit>
<digit> ::= "0"|"1"|"2"|"3"|"4"|"5"|"6"|"7"|"8"|"9"
<tail> ::= <digit>{0,3}
''']
CONS=[['where int(<chk>) == 7'], ['where int(<chk>) > 7', 'where int(<len>) >= 4'], ['where str(<len>) == "5"'], ['where int(<chk>) == int(<len>)'], ['where str(<body>).count("a") >= 2'], ['where len(str(<tail>)) == 2', 'where str(<body>) != "a"'], ['where int(<chk>) > 3'], ['where str(<tag>) == "b"'], ['where int(<len>) >= 3']]
tot=0; bad=collections.Counter(); exs=[]
for spec0 in SPECS:
    for cons in CONS:
        for seed in range(12):
            spec=spec0+"\n".join(cons)+"\n"
            f=mk(spec); CALLS=f.grammar._global_variables["CALLS"]
            with contextlib.redirect_stderr(io.StringIO()):
                try: sols=f.fuzz(desired_solutions=10,population_size=15,max_generations=30,random_seed=seed,max_nodes=60)
                except Exception as e: bad[("exc",type(e).__name__)]+=1; continue
            callset=set((a,tuple(b),c) for a,b,c in CALLS)
            for t in sols:
                tot+=1
                for sym in ["<tag>","<len>","<chk>"]:
                    for n in t.find_all_trees(NonTerminal(sym)):
                        if n.get_root() is not t: continue
                        args=tuple(str(s) for s in n.sources)
                        if (sym,args,str(n)) not in callset:
                            bad[("not-a-logged-return",sym)]+=1
                            if len(exs)<3: exs.append((str(t),sym,args,str(n)))
                        if not all(c.read_only for c in n.children): bad[("children-not-readonly",sym)]+=1
print("solutions",tot,"issues",dict(bad))
for e in exs: print(e)
