import os, json, logging, sys, collections
os.environ["FANDANGO_DISABLE_UPDATE_CHECK"]="1"
from fandango.evolution.evaluation import Evaluator
from fandango.constraints.constraint import Constraint
from fandango.constraints.repetition_bounds import RepetitionBoundsConstraint
from fandango.constraints.fitness import ConstraintFitness
from fandango.constraints.failing_tree import NopSuggestion
from fandango.language.grammar.grammar import Grammar
from fandango.language.tree import DerivationTree
from fandango.language.symbols import NonTerminal, Terminal
class Stub(Constraint):
    def __init__(self, ok): super().__init__(); self.ok=ok
    def fitness(self, tree, scope=None, local_variables=None):
        return ConstraintFitness(1 if self.ok else 0, 1, self.ok, NopSuggestion())
    def accept(self, v): pass
    def format_as_spec(self): return "stub"
    def invert(self): return self
class RepStub(RepetitionBoundsConstraint):
    def __init__(self, ok): Constraint.__init__(self); self.ok=ok
    def fitness(self, tree, scope=None, local_variables=None):
        return ConstraintFitness(1 if self.ok else 0, 1, self.ok, NopSuggestion())
    def format_as_spec(self): return "repstub"
g=Grammar.dummy()
bad=[]; n=0
for line in open("table.ndjson"):
    c=json.loads(line); n+=1
    cons=[Stub(i<c["hs"]) for i in range(c["h"])]+[RepStub(i<c["rs"]) for i in range(c["r"])]
    ev=Evaluator(g, cons, 1.0, 0, 0.0)
    t=DerivationTree(NonTerminal("<start>"),[DerivationTree(Terminal("x"))])
    def run():
        gen=ev.evaluate_individual(t); out=[]
        try:
            while True: out.append(next(gen))
        except StopIteration as st: return out, st.value
    first,_=run(); second,_=run()
    got=(len(first)==1); again=(len(second)==1)
    if got!=c["accept"] or again: bad.append((c["h"],c["r"],c["hs"],c["rs"],got,again))
print("cases",n,"disagreements",len(bad)); print(sorted(set((b[0],b[1]) for b in bad))[:40])
