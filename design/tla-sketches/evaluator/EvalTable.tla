---- MODULE EvalTable ----
EXTENDS Naturals, Sequences, FiniteSets, TLC, Json, IOUtils, SequencesExt
MaxH == 9
MaxR == 9
\* every configuration of the evaluator's acceptance decision: h hard and r repetition-bound constraints,
\* hs / rs of them satisfied; the specification's rule: emit iff everything is satisfied and the tree is new
Cases == { [h |-> h, r |-> r, hs |-> hs, rs |-> rs, accept |-> (hs = h /\ rs = r)] :
             h \in 0..MaxH, r \in 0..MaxR, hs \in 0..MaxH, rs \in 0..MaxR }
Good == { c \in Cases : c.hs <= c.h /\ c.rs <= c.r /\ c.h + c.r > 0 }
ASSUME ndJsonSerialize(IOEnv.OUT, SetToSeq(Good))
ASSUME PrintT(<<"cases", Cardinality(Good)>>)
VARIABLE x
Init == x = 0
Next == UNCHANGED x
====
