---- MODULE MC_spec ----
EXTENDS RunP
P == << [snd |-> "F", rcp |-> "X", ty |-> "go",  units |-> <<"g">>],
        [snd |-> "X", rcp |-> "F", ty |-> "a",   units |-> <<"a","1","a">>],
        [snd |-> "X", rcp |-> "G", ty |-> "b",   units |-> <<"b","b">>],
        [snd |-> "G", rcp |-> "X", ty |-> "end", units |-> <<"e">>] >>
====
