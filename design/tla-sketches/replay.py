import os, json, re, logging, collections
os.environ["FANDANGO_DISABLE_UPDATE_CHECK"]="1"
from fandango import Fandango
spec='''<start> ::= <a>{1,3} ("x" | <b>)*
<a> ::= "a" | "aa"
<b> ::= "b" <a>
'''
f=Fandango(spec,use_stdlib=False,logging_level=logging.CRITICAL)
def shape_j(t):
    if t["term"]: return repr("".join(map(chr,t["val"])))
    return t["sym"]+"("+",".join(shape_j(c) for c in t["ch"])+")"
def word_j(t):
    if t["term"]: return "".join(map(chr,t["val"]))
    return "".join(word_j(c) for c in t["ch"])
def shape(t):
    if t.symbol.is_terminal: return repr(str(t.symbol.value()))
    return t.symbol.name()+"("+",".join(shape(c) for c in t.children)+")"
by=collections.defaultdict(set)
for line in open("out.txt"):
    m=re.match(r'<<"TREE", (".*")>>$', line.strip())
    if m:
        t=json.loads(json.loads(m.group(1)))
        by[word_j(t)].add(shape_j(t))
print(len(by),"words", sum(len(v) for v in by.values()),"trees")
bad=0
for w,exp in sorted(by.items()):
    f.grammar._parser._cache.clear()
    got={shape(t) for t in f.grammar.parse_forest(w)}
    # spec enumerates only trees with <=5 leaves & cap 3; real may find more (larger caps) -> subset check + exact when sizes fit
    if not exp <= got:
        bad+=1; print("MISSING", w, exp-got)
    extra=got-exp
    if extra: print("EXTRA(beyond bounds?)", w, extra)
print("bad",bad)
# near-miss
alpha="abx"
words=set(by)
miss=0;n=0
for w in list(words):
    for i in range(len(w)):
        for ch in alpha:
            v=w[:i]+ch+w[i+1:]
            if v in words or len(v)>5: continue
            n+=1
            got=list(f.grammar.parse_forest(v))
            # v may still be in L if it needs >5 leaves? length<=5 chars but 'aa' leaves => fewer leaves; all words with <=5 chars have <=5 leaves -> enumerated
            if got: miss+=1; print("ACCEPTED near-miss", v, [shape(t) for t in got][:1])
print("nearmiss", n, "accepted", miss)
