import json, logging, random, os, sys
os.environ["FANDANGO_DISABLE_UPDATE_CHECK"]="1"
from fandango import Fandango
from fandango.language.grammar.nodes.alternative import Alternative
from fandango.language.grammar.nodes.concatenation import Concatenation
from fandango.language.grammar.nodes.repetition import Repetition
from fandango.language.grammar.nodes.non_terminal import NonTerminalNode
from fandango.language.grammar.nodes.terminal import TerminalNode
def N(k, xs=(), s="", lo=0, hi=0, v=()): return {"k":k,"xs":list(xs),"s":s,"lo":lo,"hi":hi,"v":list(v)}
def conv(n):
    if isinstance(n, Alternative): return N("alt",[conv(c) for c in n.alternatives])
    if isinstance(n, Concatenation): return N("cat",[conv(c) for c in n.nodes])
    if isinstance(n, Repetition): return N("rep",[conv(n.node)],lo=n.min,hi=(999 if n.internal_max is None else n.internal_max))
    if isinstance(n, NonTerminalNode): return N("nt",s=n.symbol.name())
    if isinstance(n, TerminalNode): return N("lit",v=[ord(c) for c in str(n.symbol.value())])
    raise Exception(type(n))
def tconv(t):
    if t.symbol.is_terminal: return {"sym":"","term":True,"val":[ord(c) for c in str(t.symbol.value())],"ch":[]}
    return {"sym":t.symbol.name(),"term":False,"val":[],"ch":[tconv(c) for c in t.children]}
rnd=random.Random(int(sys.argv[1]) if len(sys.argv)>1 else 0)
def rnode(depth, nts):
    r=rnd.random()
    if depth<=0 or r<0.25: 
        return rnd.choice(['"a"','"b"','"0"','"1"','"xy"']) if rnd.random()<0.5 else rnd.choice(nts)
    if r<0.45: return "("+" | ".join(rnode(depth-1,nts) for _ in range(rnd.randint(2,3)))+")"
    if r<0.7: return " ".join(rnode(depth-1,nts) for _ in range(rnd.randint(2,3)))
    op=rnd.choice(["*","+","?","{2}","{1,3}","{0,2}","{2,}"])
    return "("+rnode(depth-1,nts)+")"+op
def rspec():
    n=rnd.randint(2,4); nts=[f"<n{i}>" for i in range(n)]
    lines=["<start> ::= "+rnode(2,nts)]
    for i,nt in enumerate(nts):
        # guarantee termination: last alternative is a literal
        lines.append(f"{nt} ::= {rnode(2, nts[i+1:] or ['\"z\"'])} | \"{chr(99+i)}\"")
    cons=rnd.choice([
        [], ['where len(str(<start>)) >= 4'], ['where len(str(<start>)) % 2 == 0'],
        ['where str(<start>).count("a") >= 2'], [f'where |{nts[0]}| >= 2'], [f'where str({nts[-1]}) != "a"'],
        [f'where len(str(<start>)) > 3', f'where str(<start>)[0] != "a"'],
    ])
    return "\n".join(lines+cons)+"\n"
cases=[]; nspec=0
import io, contextlib
for s in range(60):
    spec=rspec()
    try:
        f=Fandango(spec,use_stdlib=False,logging_level=logging.CRITICAL)
    except Exception as e:
        continue
    nspec+=1
    g={k.name():conv(v) for k,v in f.grammar.rules.items()}
    try:
        with contextlib.redirect_stderr(io.StringIO()):
            sols=f.fuzz(desired_solutions=15,population_size=rnd.choice([5,10,30]),max_generations=15,random_seed=s,max_nodes=rnd.choice([10,30,80]))
    except Exception as e:
        print("EXC", type(e).__name__, str(e)[:80]); continue
    for t in sols:
        cases.append({"g":g,"t":tconv(t),"expect":True,"spec":spec,"w":str(t)})
with open("cases.ndjson","w") as fh:
    for c in cases: fh.write(json.dumps(c)+"\n")
print(nspec, len(cases))
