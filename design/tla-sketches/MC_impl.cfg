SPECIFICATION Spec
CONSTANTS
  Proto <- P
  FZ = {"F","G"}
  FilterByRecipient = FALSE
INVARIANT TypeOK
INVARIANT NoSpuriousError
INVARIANT ExactlyOnceInOrder
PROPERTY Terminates
CHECK_DEADLOCK FALSE
