---- MODULE FanIRp ----
EXTENDS Naturals, Sequences, FiniteSets, TLC, Json, IOUtils, TLCExt, SequencesExt, FiniteSetsExt

Cases == ndJsonDeserialize(IOEnv.CASES)
Inf == 999

\* node: [k, xs, s, lo, hi, v]
RECURSIVE Ends(_,_,_,_)
RECURSIVE RepEnds(_,_,_,_,_,_)
Ends(G, node, seq, i) ==
  CASE node.k = "alt" -> UNION { Ends(G, node.xs[j], seq, i) : j \in 1..Len(node.xs) }
    [] node.k = "cat" ->
         LET RECURSIVE Go(_,_)
             Go(j, S) == IF j > Len(node.xs) THEN S
                         ELSE Go(j+1, UNION { Ends(G, node.xs[j], seq, p) : p \in S })
         IN Go(1, {i})
    [] node.k = "rep" -> RepEnds(G, node, seq, {i}, 0, IF node.lo = 0 THEN {i} ELSE {})
    [] node.k = "nt"  -> IF i < Len(seq) /\ ~seq[i+1].term /\ seq[i+1].sym = node.s THEN {i+1} ELSE {}
    [] node.k = "lit" -> IF i < Len(seq) /\ seq[i+1].term /\ seq[i+1].val = node.v THEN {i+1} ELSE {}
    [] OTHER -> {}
\* frontier S after n iterations; acc = accepted ends
RepEnds(G, node, seq, S, n, acc) ==
  IF S = {} \/ n >= node.hi \/ n > Len(seq) + 1 THEN acc
  ELSE LET S2 == UNION { Ends(G, node.xs[1], seq, p) : p \in S } \ (IF n >= node.lo THEN {} ELSE {})
           n2 == n + 1
           acc2 == IF n2 >= node.lo THEN acc \cup S2 ELSE acc
       IN RepEnds(G, node, seq, S2, n2, acc2)

RECURSIVE Valid(_,_)
Valid(G, t) ==
  IF t.term THEN Len(t.ch) = 0
  ELSE /\ t.sym \in DOMAIN G
       /\ Len(t.ch) \in Ends(G, G[t.sym], t.ch, 0)
       /\ \A j \in 1..Len(t.ch) : Valid(G, t.ch[j])

VARIABLE i, bad
Init == i = 1 /\ bad = <<>>
Next == /\ i <= Len(Cases)
        /\ i' = i + 1
        /\ bad' = IF Valid(Cases[i].g, Cases[i].t) = Cases[i].expect THEN bad ELSE Append(bad, i)
Spec == Init /\ [][Next]_<<i,bad>>
Final == i <= Len(Cases) \/ (PrintT(<<"BAD", Len(bad), ToJson(bad)>>) /\ bad = <<>>)
====
