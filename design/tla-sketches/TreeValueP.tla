---- MODULE TreeValueP ----
EXTENDS Integers, Sequences, FiniteSets, TLC, SequencesExt

\* ---------------- leaves: [k \in {"str","bytes","bit"}, v : Seq(Int)]
S(cps)  == [k |-> "str",   v |-> cps]
B(bs)   == [k |-> "bytes", v |-> bs]
Bit(b)  == [k |-> "bit",   v |-> <<b>>]
B8      == << Bit(0), Bit(1), Bit(0), Bit(0), Bit(0), Bit(0), Bit(0), Bit(1) >>     \* 0x41 'A'

Utf8(cp) == IF cp < 128 THEN <<cp>>
            ELSE IF cp < 2048 THEN <<192 + cp \div 64, 128 + (cp % 64)>>
            ELSE IF cp < 65536 THEN <<224 + cp \div 4096, 128 + ((cp \div 64) % 64), 128 + (cp % 64)>>
            ELSE <<240 + cp \div 262144, 128 + ((cp \div 4096) % 64), 128 + ((cp \div 64) % 64), 128 + (cp % 64)>>
FlatMap(seq, Op(_)) == FoldLeft(LAMBDA acc, x : acc \o Op(x), <<>>, seq)
Utf8All(cps) == FlatMap(cps, Utf8)
ByteBits(b) == [i \in 1..8 |-> (b \div (2^(8-i))) % 2]
BitsOfBytes(bs) == FlatMap(bs, ByteBits)
RECURSIVE BytesOfBits(_)
BytesOfBits(bits) == IF bits = <<>> THEN <<>>
   ELSE << FoldLeft(LAMBDA acc, x : acc * 2 + x, 0, SubSeq(bits, 1, 8)) >> \o BytesOfBits(SubSeq(bits, 9, Len(bits)))

\* ---------------- reference semantics (flat leaf sequence)
LeafBits(l) == CASE l.k = "bit" -> l.v [] l.k = "bytes" -> BitsOfBytes(l.v) [] l.k = "str" -> BitsOfBytes(Utf8All(l.v))
RECURSIVE AlignedFrom(_,_)
AlignedFrom(ls, pos) == IF ls = <<>> THEN TRUE
   ELSE LET l == Head(ls) IN
        /\ (l.k # "bit" /\ l.v # <<>>) => (pos % 8) = 0
        /\ AlignedFrom(Tail(ls), pos + Len(LeafBits(l)))
Aligned(ls) == AlignedFrom(ls, 0)
RefBits(ls) == FlatMap(ls, LeafBits)
AllText(ls) == \A i \in 1..Len(ls) : ls[i].k = "str"
RefBytesDefined(ls) == Aligned(ls) /\ (Len(RefBits(ls)) % 8) = 0
RefBytes(ls) == BytesOfBits(RefBits(ls))
RefStr(ls) == IF AllText(ls) THEN FlatMap(ls, LAMBDA l : l.v) ELSE RefBytes(ls)      \* latin-1: byte b <-> code point b

\* ---------------- implementation-shaped TreeValue: [k \in {"none","str","bytes"}, v, tb] or the error value
Err == [k |-> "ERR", v |-> <<>>, tb |-> <<>>]
Empty == [k |-> "none", v |-> <<>>, tb |-> <<>>]
OfLeaf(l) == IF l.k = "bit" THEN [k |-> "none", v |-> <<>>, tb |-> l.v] ELSE [k |-> l.k, v |-> l.v, tb |-> <<>>]
EncodeStr(cps, enc) == IF enc = "utf8" THEN [ok |-> TRUE, v |-> Utf8All(cps)]
                       ELSE IF \A i \in 1..Len(cps) : cps[i] < 256 THEN [ok |-> TRUE, v |-> cps] ELSE [ok |-> FALSE, v |-> <<>>]
Reduce(a, enc) ==                       \* _reduce_trailing_bits
  IF a.k = "ERR" \/ a.tb = <<>> THEN a
  ELSE IF (Len(a.tb) % 8) # 0 THEN Err
  ELSE LET bs == BytesOfBits(a.tb) IN
       CASE a.k = "str"   -> LET e == EncodeStr(a.v, enc) IN IF e.ok THEN [k |-> "bytes", v |-> e.v \o bs, tb |-> <<>>] ELSE Err
         [] a.k = "bytes" -> [k |-> "bytes", v |-> a.v \o bs, tb |-> <<>>]
         [] a.k = "none"  -> [k |-> "bytes", v |-> bs, tb |-> <<>>]
AppendV(a, b) ==
  IF a.k = "ERR" \/ b.k = "ERR" THEN Err
  ELSE IF a.k = "none" /\ a.tb = <<>> THEN b
  ELSE IF b.k = "none" THEN [a EXCEPT !.tb = a.tb \o b.tb]
  ELSE LET r == Reduce(a, "utf8") IN
       IF r.k = "ERR" THEN Err
       ELSE IF r.k = "str" /\ b.k = "str" THEN [k |-> "str", v |-> r.v \o b.v, tb |-> b.tb]
       ELSE LET lv == IF r.k = "str" THEN Utf8All(r.v) ELSE r.v
                rv == IF b.k = "str" THEN Utf8All(b.v) ELSE b.v
            IN [k |-> "bytes", v |-> lv \o rv, tb |-> b.tb]
\* DerivationTree.value(): fold over children; shapes: a tree is a leaf or a sequence of trees
RECURSIVE Value(_)
Value(t) == IF "k" \in DOMAIN t THEN OfLeaf(t) ELSE FoldLeft(LAMBDA acc, c : AppendV(acc, Value(c)), Empty, t.ch)
ToStrImpl(a, flushEnc) ==      \* to_string(): the code flushes trailing bits with the *decoding* name (latin1)
  IF a.k = "none" /\ a.tb = <<>> THEN [ok |-> TRUE, v |-> <<>>]
  ELSE LET r == Reduce(a, flushEnc) IN
       IF r.k = "ERR" THEN [ok |-> FALSE, v |-> <<>>] ELSE [ok |-> TRUE, v |-> r.v]      \* str: itself; bytes: latin-1 decode = identity on ints
ToBytesImpl(a) ==
  IF a.k = "none" /\ a.tb = <<>> THEN [ok |-> TRUE, v |-> <<>>]
  ELSE LET r == Reduce(a, "utf8") IN
       IF r.k = "ERR" THEN [ok |-> FALSE, v |-> <<>>]
       ELSE [ok |-> TRUE, v |-> IF r.k = "str" THEN Utf8All(r.v) ELSE r.v]

\* ---------------- cases: leaf sequences over an alphabet, two nestings
CONSTANT FlushEnc                        \* "latin1" = as in the code, "utf8" = repaired
Alphabet == { <<S(<<97>>)>>, <<S(<<233>>)>>, <<S(<<8364>>)>>, <<B(<<128>>)>>, <<B(<<65>>)>>, <<S(<<>>)>>, B8, <<Bit(1)>> }
Seqs == UNION { [1..n -> Alphabet] : n \in 1..3 }
Leaves(sq) == FlatMap(sq, LAMBDA x : x)
Flat(ls) == [ch |-> ls]
Nested(ls, i) == [ch |-> << [ch |-> SubSeq(ls, 1, i)], [ch |-> SubSeq(ls, i+1, Len(ls))] >>]
Shapes(ls) == {Flat(ls)} \cup { Nested(ls, i) : i \in 1..(Len(ls)-1) }

VARIABLES case, shape
Init == case \in Seqs /\ shape \in Shapes(Leaves(case))
Next == UNCHANGED <<case, shape>>
Spec == Init /\ [][Next]_<<case, shape>>

\* the implementation folds subtree by subtree: a text/bytes leaf (even an empty one) that follows a
\* locally unaligned run of bits inside its own subtree makes the fold fail although the tree as a whole is aligned
RECURSIVE LocalOK(_,_)
LocalOK(ls, pos) == IF ls = <<>> THEN TRUE
   ELSE LET l == Head(ls) IN (l.k # "bit" => (pos % 8) = 0) /\ LocalOK(Tail(ls), pos + Len(LeafBits(l)))
RECURSIVE LeavesOf(_)
LeavesOf(t) == IF "k" \in DOMAIN t THEN <<t>> ELSE FlatMap(t.ch, LeavesOf)
RECURSIVE LocallyAligned(_)
LocallyAligned(t) == "k" \in DOMAIN t \/ (LocalOK(LeavesOf(t), 0) /\ \A i \in 1..Len(t.ch) : LocallyAligned(t.ch[i]))
CONSTANT OnlyLocallyAligned
ViewsAgree ==
  LET ls == Leaves(case)  val == Value(shape) IN
  (RefBytesDefined(ls) /\ (OnlyLocallyAligned => LocallyAligned(shape))) =>
      /\ ToBytesImpl(val) = [ok |-> TRUE, v |-> RefBytes(ls)]
      /\ ToStrImpl(val, FlushEnc) = [ok |-> TRUE, v |-> RefStr(ls)]
====
