---- MODULE MC_star_FALSE ----
EXTENDS EarleyP
R == { [lhs |-> "S", rhs |-> <<"Z", "c">>], [lhs |-> "Z", rhs |-> <<>>], [lhs |-> "Z", rhs |-> <<"A", "Z">>], [lhs |-> "A", rhs |-> <<>>], [lhs |-> "A", rhs |-> <<"x">>] }
In == << "x", "c" >>
====
