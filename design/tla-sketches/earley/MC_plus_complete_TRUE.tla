---- MODULE MC_plus_complete_TRUE ----
EXTENDS EarleyP
R == { [lhs |-> "S", rhs |-> <<"a", "P">>], [lhs |-> "P", rhs |-> <<"B">>], [lhs |-> "P", rhs |-> <<"B", "P">>], [lhs |-> "B", rhs |-> <<"O", "c">>], [lhs |-> "O", rhs |-> <<>>], [lhs |-> "O", rhs |-> <<"b">>] }
In == << "a", "c", "b", "c" >>
====
