SPECIFICATION Spec
CONSTANTS
  Rules <- R
  NT = { "S", "P", "B", "O" }
  Start = "S"
  Input <- In
  PrefixMode = TRUE
  AdmitByCore = TRUE
  MaxSize = 40
INVARIANT Bounded
PROPERTY Terminates
CHECK_DEADLOCK FALSE
