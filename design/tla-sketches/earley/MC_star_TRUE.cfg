SPECIFICATION Spec
CONSTANTS
  Rules <- R
  NT = { "S", "Z", "A" }
  Start = "S"
  Input <- In
  PrefixMode = FALSE
  AdmitByCore = TRUE
  MaxSize = 40
INVARIANT Bounded
PROPERTY Terminates
CHECK_DEADLOCK FALSE
