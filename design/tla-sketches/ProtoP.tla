---- MODULE ProtoP ----
EXTENDS Naturals, Sequences, FiniteSets, TLC, Json, IOUtils, TLCExt, SequencesExt

G == JsonDeserialize(IOEnv.GRAMMAR)   \* [start |-> "<start>", rules |-> [ "<a>" |-> node ... ], cap |-> 3]
MaxLeaves == 6
MaxNodes  == 40

\* frames: stack (sequence) of [sym, kids, todo]  todo = sequence of grammar nodes still to expand
VARIABLES stack, leaves, nodes, done, hist
vars == <<stack, leaves, nodes, done, hist>>

Leaf(v) == [sym |-> "", term |-> TRUE, val |-> v, ch |-> <<>>]
Inner(s, kids) == [sym |-> s, term |-> FALSE, val |-> <<>>, ch |-> kids]

Init == /\ stack = << [sym |-> G.start, kids |-> <<>>, todo |-> << G.rules[G.start] >>] >>
        /\ leaves = 0 /\ nodes = 1 /\ done = <<>> /\ hist = <<>>

Top == stack[Len(stack)]
SetTop(f) == [stack EXCEPT ![Len(stack)] = f]
Rest(f) == Tail(f.todo)

Copies(x, k) == [j \in 1..k |-> x]

Step ==
  /\ done = <<>>
  /\ Len(stack) > 0
  /\ LET f == Top IN
     IF f.todo = <<>> THEN
        \* frame complete: pop and attach
        IF Len(stack) = 1
        THEN /\ done' = << Inner(f.sym, f.kids) >> /\ stack' = <<>> /\ UNCHANGED <<leaves, nodes, hist>>
        ELSE LET p == stack[Len(stack)-1]
                 p2 == [p EXCEPT !.kids = Append(@, Inner(f.sym, f.kids))]
             IN /\ stack' = Append(SubSeq(stack, 1, Len(stack)-2), p2)
                /\ UNCHANGED <<leaves, nodes, done, hist>>
     ELSE LET n == Head(f.todo) IN
        CASE n.k = "alt" -> \E j \in 1..Len(n.xs) :
                 /\ stack' = SetTop([f EXCEPT !.todo = <<n.xs[j]>> \o Rest(f)])
                 /\ UNCHANGED <<leaves, nodes, done, hist>>
          [] n.k = "cat" -> /\ stack' = SetTop([f EXCEPT !.todo = n.xs \o Rest(f)])
                            /\ UNCHANGED <<leaves, nodes, done, hist>>
          [] n.k = "rep" -> \E c \in n.lo .. (IF n.hi > G.cap THEN G.cap ELSE n.hi) :
                 /\ stack' = SetTop([f EXCEPT !.todo = Copies(n.xs[1], c) \o Rest(f)])
                 /\ UNCHANGED <<leaves, nodes, done, hist>>
          [] n.k = "nt" -> /\ nodes < MaxNodes
                           /\ stack' = Append(SetTop([f EXCEPT !.todo = Rest(f)]),
                                              [sym |-> n.s, kids |-> <<>>, todo |-> << G.rules[n.s] >>])
                           /\ nodes' = nodes + 1 /\ UNCHANGED <<leaves, done, hist>>
          [] n.k = "lit" -> /\ leaves < MaxLeaves /\ nodes < MaxNodes
                            /\ stack' = SetTop([f EXCEPT !.kids = Append(@, Leaf(n.v)), !.todo = Rest(f)])
                            /\ leaves' = leaves + 1 /\ nodes' = nodes + 1 /\ hist' = Append(hist, n.v[1]) /\ UNCHANGED done
Next == Step
Spec == Init /\ [][Next]_vars
Emit == PrintT(<<"H", ToJson(hist), done # <<>>>>)
====
