---- MODULE ConstraintP ----
EXTENDS Integers, Sequences, FiniteSets, TLC, Json, IOUtils, TLCExt, SequencesExt

Cases == ndJsonDeserialize(IOEnv.CASES)

\* ---------- trees: [sym, term, val, ch]
RECURSIVE Text(_)
Text(t) == IF t.term THEN t.val ELSE FoldLeft(LAMBDA acc, c : acc \o Text(c), <<>>, t.ch)

RECURSIVE AllNodes(_)     \* sequence of all nodes, pre-order, root included
AllNodes(t) == <<t>> \o FoldLeft(LAMBDA acc, c : acc \o AllNodes(c), <<>>, t.ch)
Desc(t) == FoldLeft(LAMBDA acc, c : acc \o AllNodes(c), <<>>, t.ch)

Filter(seq, sym) == SelectSeq(seq, LAMBDA n : ~n.term /\ n.sym = sym)
FlatMap(seq, Op(_)) == FoldLeft(LAMBDA acc, x : acc \o Op(x), <<>>, seq)

Norm(i, n) == IF i < 0 THEN n + i ELSE i          \* python index normalisation
Clamp(i, n) == IF i < 0 THEN (IF n + i < 0 THEN 0 ELSE n + i) ELSE (IF i > n THEN n ELSE i)
SliceNode(kids) == [sym |-> "<slice>", term |-> FALSE, val |-> <<>>, ch |-> kids]

\* selector = sequence of steps [op, sym, i, j, hasj]; result: [ok |-> BOOL, nodes |-> Seq]
RECURSIVE Sel(_,_,_,_,_)
Sel(steps, k, cur, root, scope) ==
  IF k > Len(steps) THEN [ok |-> TRUE, nodes |-> cur]
  ELSE LET st == steps[k] IN
    CASE st.op = "rule" ->
            Sel(steps, k+1, IF st.sym \in DOMAIN scope THEN <<scope[st.sym]>> ELSE Filter(AllNodes(root), st.sym), root, scope)
      [] st.op = "child" -> Sel(steps, k+1, FlatMap(cur, LAMBDA n : Filter(n.ch, st.sym)), root, scope)
      [] st.op = "desc"  -> Sel(steps, k+1, FlatMap(cur, LAMBDA n : Filter(Desc(n), st.sym)), root, scope)
      [] st.op = "item"  ->
            IF \E x \in 1..Len(cur) : LET n == Len(cur[x].ch) p == Norm(st.i, n) IN p < 0 \/ p >= n
            THEN [ok |-> FALSE, nodes |-> <<>>]
            ELSE Sel(steps, k+1, [x \in 1..Len(cur) |-> cur[x].ch[Norm(st.i, Len(cur[x].ch)) + 1]], root, scope)
      [] st.op = "slice" ->
            Sel(steps, k+1, [x \in 1..Len(cur) |->
                 LET n == Len(cur[x].ch) a == Clamp(st.i, n) b == IF st.hasj THEN Clamp(st.j, n) ELSE n
                 IN SliceNode(IF b > a THEN SubSeq(cur[x].ch, a+1, b) ELSE <<>>)], root, scope)

IsDigits(s) == Len(s) > 0 /\ Len(s) <= 9 /\ \A i \in 1..Len(s) : s[i] \in 48..57
ToInt(s) == FoldLeft(LAMBDA acc, c : acc * 10 + (c - 48), 0, s)

\* atom verdict on one node: "T", "F" or "X" (raises)
AtomOn(a, n) ==
  CASE a.kind = "streq" -> IF Text(n) = a.lit THEN "T" ELSE "F"
    [] a.kind = "lengt" -> IF Len(Text(n)) > a.k THEN "T" ELSE "F"
    [] a.kind = "intgt" -> IF ~IsDigits(Text(n)) THEN "X" ELSE IF ToInt(Text(n)) > a.k THEN "T" ELSE "F"

\* expression-level group: one Python expression `a1 op a2 (op a3)`; combinations = product of the matches
\* of every atom's selector; per combination evaluate left to right with short-circuit; a raise fails the combination
RECURSIVE Product(_)
Product(lists) == IF lists = <<>> THEN {<<>>}
                  ELSE { <<h>> \o t : h \in {lists[1][x] : x \in 1..Len(lists[1])}, t \in Product(Tail(lists)) }
RECURSIVE EvalAnd(_,_,_)
EvalAnd(atoms, combo, k) == IF k > Len(atoms) THEN "T"
   ELSE LET v == AtomOn(atoms[k], combo[k]) IN IF v = "T" THEN EvalAnd(atoms, combo, k+1) ELSE v
RECURSIVE EvalOr(_,_,_)
EvalOr(atoms, combo, k) == IF k > Len(atoms) THEN "F"
   ELSE LET v == AtomOn(atoms[k], combo[k]) IN IF v = "F" THEN EvalOr(atoms, combo, k+1) ELSE v
SatGroup(phi, root, scope) ==
  LET rs == [x \in 1..Len(phi.xs) |-> Sel(phi.xs[x].sel, 1, <<>>, root, scope)] IN
  IF \E x \in 1..Len(rs) : ~rs[x].ok THEN "SELX"
  ELSE LET combos == Product([x \in 1..Len(rs) |-> rs[x].nodes]) IN
       IF \A c \in combos : (IF phi.op = "and" THEN EvalAnd(phi.xs, c, 1) ELSE EvalOr(phi.xs, c, 1)) = "T" THEN "T" ELSE "F"

\* formula: [f |-> "atom", kind, lit, k, sel] | [f |-> "and"/"or", xs] | [f |-> "forall"/"exists", var, sel, body] | [f |-> "count", sel, k]
\* result in {"T","F","SELX"}  (SELX: a selector raised -> anything but "satisfied" is acceptable)
RECURSIVE Sat(_,_,_)
Sat(phi, root, scope) ==
  CASE phi.f = "atom" ->
         LET r == Sel(phi.sel, 1, <<>>, root, scope) IN
         IF ~r.ok THEN "SELX"
         ELSE IF \A x \in 1..Len(r.nodes) : AtomOn(phi, r.nodes[x]) = "T" THEN "T" ELSE "F"
    [] phi.f = "group" -> SatGroup(phi, root, scope)
    [] phi.f = "count" ->
         LET r == Sel(phi.sel, 1, <<>>, root, scope) IN
         IF ~r.ok THEN "SELX" ELSE IF Len(r.nodes) >= phi.k THEN "T" ELSE "F"
    [] phi.f = "and" -> IF \E x \in 1..Len(phi.xs) : Sat(phi.xs[x], root, scope) = "SELX" THEN "SELX"
                        ELSE IF \A x \in 1..Len(phi.xs) : Sat(phi.xs[x], root, scope) = "T" THEN "T" ELSE "F"
    [] phi.f = "or"  -> IF \E x \in 1..Len(phi.xs) : Sat(phi.xs[x], root, scope) = "SELX" THEN "SELX"
                        ELSE IF \E x \in 1..Len(phi.xs) : Sat(phi.xs[x], root, scope) = "T" THEN "T" ELSE "F"
    [] phi.f \in {"forall", "exists"} ->
         LET r == Sel(phi.sel, 1, <<>>, root, scope) IN
         IF ~r.ok THEN "SELX"
         ELSE LET res == [x \in 1..Len(r.nodes) |-> Sat(phi.body, root, (phi.var :> r.nodes[x]) @@ scope)] IN
              IF \E x \in 1..Len(res) : res[x] = "SELX" THEN "SELX"
              ELSE IF phi.f = "forall" THEN (IF \A x \in 1..Len(res) : res[x] = "T" THEN "T" ELSE "F")
                   ELSE (IF \E x \in 1..Len(res) : res[x] = "T" THEN "T" ELSE "F")

EmptyScope == [x \in {} |-> 0]
Agree(c) == LET s == Sat(c.phi, c.tree, EmptyScope) IN
            CASE s = "T" -> c.got = "T"
              [] s = "F" -> c.got \in {"F"}
              [] s = "SELX" -> c.got \in {"F", "X"}

VARIABLES i, bad
Init == i = 1 /\ bad = <<>>
Next == /\ i <= Len(Cases) /\ i' = i + 1
        /\ bad' = IF Agree(Cases[i]) THEN bad ELSE Append(bad, i)
Spec == Init /\ [][Next]_<<i, bad>>
Final == i <= Len(Cases) \/ (PrintT(<<"BAD", Len(bad), ToJson(bad)>>) /\ bad = <<>>)
====
