import os, random, logging, io, contextlib, json, sys
os.environ["FANDANGO_DISABLE_UPDATE_CHECK"]="1"
from fandango import Fandango
GR='''<start> ::= <e> ";" <e>
<e> ::= <t> | <t> "+" <e> | "(" <e> ")"
<t> ::= <d> | <d> <t> | "x"
<d> ::= "0" | "1" | "7"
'''
def mk(c, lazy=False): return Fandango(GR+c+"\n", use_stdlib=False, logging_level=logging.CRITICAL, lazy=lazy)
def T(t):
    if t.symbol.is_terminal: return {"sym":"","term":True,"val":[ord(c) for c in str(t.symbol.value())],"ch":[]}
    return {"sym":t.symbol.name(),"term":False,"val":[],"ch":[T(c) for c in t.children]}
rnd=random.Random(int(sys.argv[1]) if len(sys.argv)>1 else 0)
NTS=["<start>","<e>","<t>","<d>"]
def step(op,sym="",i=0,j=0,hasj=False): return {"op":op,"sym":sym,"i":i,"j":j,"hasj":hasj}
def rsel(scopevars):
    base=rnd.choice(scopevars) if scopevars and rnd.random()<0.6 else rnd.choice(NTS)
    steps=[step("rule",base)]
    def maybe_bracket():
        r=rnd.random()
        if r<0.2: steps.append(step("item",i=rnd.choice([0,1,2])))
        elif r<0.35:
            hasj=rnd.random()<0.5
            steps.append(step("slice",i=rnd.choice([0,1]),j=rnd.choice([1,2,3]),hasj=hasj))
    maybe_bracket()
    prev=base
    for _ in range(rnd.randint(0,2)):
        s=rnd.choice(NTS[1:])
        if rnd.random()<0.5 or s==prev: steps.append(step("child",s))
        else: steps.append(step("desc",s))
        prev=s
        maybe_bracket()
    return steps
def rsel_text(steps):
    o=""
    for st in steps:
        if st["op"]=="rule": o+=st["sym"]
        elif st["op"]=="child": o+="."+st["sym"]
        elif st["op"]=="desc": o+=".."+st["sym"]
        elif st["op"]=="item": o+=f"[{st['i']}]"
        elif st["op"]=="slice": o+=f"[{st['i']}:{st['j'] if st['hasj'] else ''}]"
    return o
def ratom(scopevars):
    kind=rnd.choice(["streq","lengt","intgt"]); sel=rsel(scopevars)
    if kind=="streq": lit=rnd.choice(["1","x","7","17","(x)"]); return {"f":"atom","kind":kind,"lit":[ord(c) for c in lit],"k":0,"sel":sel}, f'str({rsel_text(sel)}) == {lit!r}'
    if kind=="lengt": k=rnd.choice([0,1,2]); return {"f":"atom","kind":kind,"lit":[],"k":k,"sel":sel}, f'len(str({rsel_text(sel)})) > {k}'
    k=rnd.choice([0,3,10]); return {"f":"atom","kind":kind,"lit":[],"k":k,"sel":sel}, f'int({rsel_text(sel)}) > {k}'
def rleaf(scopevars):
    r=rnd.random()
    if r<0.6: return ratom(scopevars)
    if r<0.75:
        sel=rsel(scopevars); k=rnd.choice([1,2,3]); return {"f":"count","sel":sel,"k":k}, f'|{rsel_text(sel)}| >= {k}'
    op=rnd.choice(["and","or"]); parts=[ratom(scopevars) for _ in range(rnd.randint(2,3))]
    return {"f":"group","op":op,"xs":[p[0] for p in parts]}, "("+f" {op} ".join(p[1] for p in parts)+")"
def rconj(scopevars):
    parts=[rleaf(scopevars) for _ in range(rnd.randint(1,2))]
    if len(parts)==1: return parts[0]
    return {"f":"and","xs":[p[0] for p in parts]}, " and ".join(p[1] for p in parts)
def rdisj(scopevars):
    parts=[rconj(scopevars) for _ in range(rnd.randint(1,2))]
    if len(parts)==1: return parts[0]
    return {"f":"or","xs":[p[0] for p in parts]}, " or ".join(p[1] for p in parts)
def rphi(depth, scopevars):
    if depth==0 or rnd.random()<0.5: return rdisj(scopevars)
    q=rnd.choice(["forall","exists"]); var=f"<v{depth}>"; sel=rsel(scopevars); body=rphi(depth-1, scopevars+[var])
    return {"f":q,"var":var,"sel":sel,"body":body[0]}, f'{q} {var} in {rsel_text(sel)}: {body[1]}'
f0=mk("")
trees=[f0.grammar.fuzz("<start>", max_nodes=rnd.choice([8,20,40])) for _ in range(25)]
jt=[T(t) for t in trees]
out=open("cases.ndjson","w"); n=0; skipped=0
for c in range(int(sys.argv[2]) if len(sys.argv)>2 else 150):
    phi,text=rphi(2,[])
    try:
        with contextlib.redirect_stderr(io.StringIO()):
            f=mk("where "+text)
    except Exception as e:
        skipped+=1; continue
    con=f.constraints[0]
    for t,j in zip(trees,jt):
        with contextlib.redirect_stderr(io.StringIO()):
            try: got="T" if con.check(t) else "F"
            except Exception: got="X"
        out.write(json.dumps({"phi":phi,"tree":j,"got":got,"text":text,"w":str(t)})+"\n"); n+=1
print("cases",n,"skipped specs",skipped)
