import os, logging, json, re, subprocess, collections, sys
os.environ["FANDANGO_DISABLE_UPDATE_CHECK"]="1"
from fandango import Fandango
from fandango.language.tree import DerivationTree
from fandango.language.symbols import NonTerminal
from fandango.io.navigation.packetforecaster import PacketForecaster
from fandango.language.grammar.nodes.alternative import Alternative
from fandango.language.grammar.nodes.concatenation import Concatenation
from fandango.language.grammar.nodes.repetition import Repetition
from fandango.language.grammar.nodes.non_terminal import NonTerminalNode
from fandango.language.grammar.nodes.terminal import TerminalNode
def mk(spec): return Fandango(spec, use_stdlib=False, logging_level=logging.CRITICAL)
PARTIES='''
class A(FandangoParty):
    def __init__(self):
        super().__init__(connection_mode=ConnectionMode.OPEN)
class B(FandangoParty):
    def __init__(self):
        super().__init__(connection_mode=ConnectionMode.EXTERNAL)
'''
SPECS=[
'''<start> ::= (<A:a> | <B:b> <A:c>){2,3} <B:z>
<a> ::= "a"
<b> ::= "b"
<c> ::= "c"
<z> ::= "z"
''',
'''<start> ::= <sess>{1,2}
<sess> ::= <A:open> <xfer>* <B:close>
<xfer> ::= <A:put> <B:ack> | <B:push> (<A:ack2>){1,2}
<open> ::= "o"
<put> ::= "p"
<ack> ::= "k"
<push> ::= "u"
<ack2> ::= "l"
<close> ::= "c"
''',
'''<start> ::= <A:a> <B:b> | <A:a> <B:c> | <A:d>
<a> ::= "a"
<b> ::= "b"
<c> ::= "c"
<d> ::= "d"
''',
'''<start> ::= (<A:a>{2} <B:b>)* (<A:a> <B:c>)?
<a> ::= "a"
<b> ::= "b"
<c> ::= "c"
''',
'''<start> ::= <A:a>? <B:b>? <A:c>? <B:d>
<a> ::= "a"
<b> ::= "b"
<c> ::= "c"
<d> ::= "d"
''',
]
def N(k, xs=(), s="", lo=0, hi=0, v=()): return {"k":k,"xs":list(xs),"s":s,"lo":lo,"hi":hi,"v":list(v)}
for spec in SPECS:
    f=mk(spec+PARTIES); g=f.grammar
    msgs={}  # (snd,rcp,sym) -> id
    def conv(n):
        if isinstance(n, Alternative): return N("alt",[conv(c) for c in n.alternatives])
        if isinstance(n, Concatenation): return N("cat",[conv(c) for c in n.nodes])
        if isinstance(n, Repetition): return N("rep",[conv(n.node)],lo=n.min,hi=(999 if n.internal_max is None else n.internal_max))
        if isinstance(n, NonTerminalNode):
            if n.sender is not None:
                key=(n.sender,n.recipient,n.symbol.name()); mid=msgs.setdefault(key,len(msgs)+1)
                return N("lit",v=[mid])
            return N("nt",s=n.symbol.name())
        raise Exception(type(n))
    # only rules reachable without entering messages
    rules={}; todo=["<start>"]
    while todo:
        s=todo.pop()
        if s in rules: continue
        rules[s]=conv(g.rules[NonTerminal(s)])
        def nts(n):
            if n["k"]=="nt": yield n["s"]
            for c in n["xs"]: yield from nts(c)
        todo.extend(nts(rules[s]))
    json.dump({"start":"<start>","cap":6,"rules":rules},open("gm.json","w"))
    r=subprocess.run("GRAMMAR=gm.json timeout 120 tlc -workers 1 -metadir /tmp/tlcprobe5/m -noGenerateSpecTE ProtoP.tla", shell=True, capture_output=True, text=True)
    inv={v:k for k,v in msgs.items()}
    prefixes=set(); complete=set()
    for line in r.stdout.splitlines():
        m=re.match(r'<<"H", "(\[.*\])", (TRUE|FALSE)>>', line.strip())
        if m:
            h=tuple(json.loads(m.group(1))); prefixes.add(h)
            if m.group(2)=="TRUE": complete.add(h)
    st=re.search(r"(\d+) states generated", r.stdout)
    nxt=collections.defaultdict(set)
    for h in prefixes:
        if h: nxt[h[:-1]].add(h[-1])
    # lock-step walk
    fc=PacketForecaster(g)
    def options(tree):
        r=fc.predict(tree); res=[]
        for party,fnt in r.parties_to_packets.items():
            for nt,pkt in fnt.nt_to_packet.items(): res.append((party,pkt.node.recipient,nt.name(),pkt))
        return r,res
    def mount(pkt):
        outs=[]
        for mp in pkt.paths:
            tree=g.collapse(mp.tree); dummy=DerivationTree(NonTerminal("<hookin>"))
            tree.append(mp.path[1:-1], dummy); fp=dummy.parent; fp.set_children(fp.children[:-1])
            pkt.node.fuzz(fp, g, 20); outs.append(tree)
        return outs
    MAXD=5; checked=[0]; bad=[]
    def walk(tree,h):
        r,opts=options(tree); checked[0]+=1
        got={msgs.get((p,rc,nt),-1) for p,rc,nt,_ in opts}
        exp=nxt.get(h,set())
        if got!=exp: bad.append(("options",[inv[i][2] for i in h],sorted(inv[i][2] for i in exp),sorted(nt for _,_,nt,_ in opts)))
        if (len(r.complete_trees)>0)!=(h in complete): bad.append(("complete",[inv[i][2] for i in h],h in complete))
        if len(h)>=MAXD: return
        for p,rc,nt,pkt in opts:
            mid=msgs.get((p,rc,nt))
            if mid is None or mid not in exp: continue   # do not follow options the spec does not allow
            for t2 in mount(pkt)[:1]: walk(t2,h+(mid,))
    walk(DerivationTree(NonTerminal("<start>")),())
    print(spec.splitlines()[0], "| TLC states", st.group(1) if st else None, "prefixes", len(prefixes), "complete", len(complete), "| histories walked", checked[0], "bad", len(bad))
    for b in bad[:4]: print("    ", b)
