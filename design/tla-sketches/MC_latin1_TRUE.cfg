SPECIFICATION Spec
CONSTANT FlushEnc = "latin1"
CONSTANT OnlyLocallyAligned = TRUE
INVARIANT ViewsAgree
CHECK_DEADLOCK FALSE
