---- MODULE CacheP ----
EXTENDS Naturals, Sequences, FiniteSets, TLC, Json, SequencesExt

\* Requests on ONE grammar object. Keys abstract (word, start, mode); Forest(k) = number of trees of the full forest.
CONSTANTS Keys, ForestSize, StoreOnlyWhenComplete, MaxHist
\* request kinds: "first" (parse(): take one tree, abandon), "all" (consume the whole forest), "some" (take 2, abandon)
Kinds == {"first", "all", "some"}

VARIABLES cache,   \* key -> number of trees stored (0 = absent is modelled by membership in dom)
          dom,     \* set of keys present in the cache
          hist,    \* history of requests with the number of trees each returned
          ok       \* FALSE once a request returned something else than a fresh object would
vars == <<cache, dom, hist, ok>>

Fresh(k, kind) == CASE kind = "first" -> IF ForestSize[k] >= 1 THEN 1 ELSE 0
                    [] kind = "some"  -> IF ForestSize[k] >= 2 THEN 2 ELSE ForestSize[k]
                    [] kind = "all"   -> ForestSize[k]
Take(avail, kind) == CASE kind = "first" -> IF avail >= 1 THEN 1 ELSE 0
                      [] kind = "some"  -> IF avail >= 2 THEN 2 ELSE avail
                      [] kind = "all"   -> avail

Init == cache = [k \in Keys |-> 0] /\ dom = {} /\ hist = <<>> /\ ok = TRUE

Request(k, kind) ==
  /\ Len(hist) < MaxHist
  /\ LET hit == k \in dom
         got == IF hit THEN Take(cache[k], kind) ELSE Take(ForestSize[k], kind)
         \* on a miss the implementation appends every tree it yields to the cache entry
         stored == IF hit THEN cache[k]
                   ELSE IF StoreOnlyWhenComplete THEN (IF got = ForestSize[k] /\ kind = "all" THEN got ELSE 0)
                   ELSE got
         present == IF hit THEN TRUE
                    ELSE IF StoreOnlyWhenComplete THEN (kind = "all") ELSE got > 0
     IN /\ cache' = [cache EXCEPT ![k] = stored]
        /\ dom' = IF present THEN dom \cup {k} ELSE dom
        /\ hist' = Append(hist, [k |-> k, kind |-> kind, got |-> got])
        /\ ok' = (ok /\ got = Fresh(k, kind))
Next == \E k \in Keys, kind \in Kinds : Request(k, kind)
Spec == Init /\ [][Next]_vars
HistoryIndependent == ok
Emit == PrintT(<<"HIST", ToJson(hist)>>)
====
