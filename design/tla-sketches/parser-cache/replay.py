import os, re, json, logging, sys
os.environ["FANDANGO_DISABLE_UPDATE_CHECK"]="1"
from fandango import Fandango
SPEC='''<start> ::= <a> | <b> | <c>{1,3}
<a> ::= "x" | "x" "y"
<b> ::= <d> <d>? 
<d> ::= "x" | "y"
<c> ::= "x" | "y" | "xy"
'''
def mk(): return Fandango(SPEC, use_stdlib=False, logging_level=logging.CRITICAL)
def request(g, kind, w):
    gen=g.parse_forest(w)
    if kind=="all": return len(list(gen))
    n = 1 if kind=="first" else 2
    out=[]
    for t in gen:
        out.append(t)
        if len(out)==n: break
    del gen
    return len(out)
hists=[]
for line in open(sys.argv[1]):
    m=re.match(r'<<"HIST", "(\[.*\])">>', line.strip())
    if m: hists.append(json.loads(json.loads('"'+m.group(1)+'"')))
bad=[]
for h in hists:
    f=mk()
    for i,req in enumerate(h):
        got=request(f.grammar, req["kind"], req["k"])
        if got!=req["got"]:
            bad.append(([ (r["kind"],r["k"]) for r in h[:i+1]], "spec", req["got"], "real", got)); break
print("histories",len(hists),"disagreements",len(bad)); print(bad[:3])
