---- MODULE MC ----
EXTENDS CacheP
FS == [k \in {"x", "xy"} |-> IF k = "x" THEN 3 ELSE 4]
====
