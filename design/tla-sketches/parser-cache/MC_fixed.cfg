SPECIFICATION Spec
CONSTANTS
  Keys = {"x", "xy"}
  ForestSize <- FS
  StoreOnlyWhenComplete = TRUE
  MaxHist = 3
INVARIANT HistoryIndependent
CONSTRAINT Emit
CHECK_DEADLOCK FALSE
