SPECIFICATION Spec
CONSTANT FlushEnc = "utf8"
CONSTANT OnlyLocallyAligned = TRUE
INVARIANT ViewsAgree
CHECK_DEADLOCK FALSE
