SPECIFICATION Spec
CONSTANTS
  Proto <- P
  FZ = {"F","G"}
  FilterByRecipient = TRUE
INVARIANT TypeOK
INVARIANT NoSpuriousError
INVARIANT ExactlyOnceInOrder
PROPERTY Terminates
CHECK_DEADLOCK FALSE
