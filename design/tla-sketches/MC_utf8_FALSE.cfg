SPECIFICATION Spec
CONSTANT FlushEnc = "utf8"
CONSTANT OnlyLocallyAligned = FALSE
INVARIANT ViewsAgree
CHECK_DEADLOCK FALSE
