"""Seeded generators of grammar IR (DESIGN section 3) and their rendering as .fan text.

The IR is the source of truth: specs are *rendered* from it, so Fandango's own reader is on the tested side.
Node: {"k","xs","s","lo","hi","ref","kind","v","items"} (uniform fields, see spec/FanIR.tla).
"""
import random

INF = 999999


def N(k, xs=(), s="", lo=0, hi=0, ref="", kind="", v=(), items=()):
    return {"k": k, "xs": list(xs), "s": s, "lo": lo, "hi": hi, "ref": ref, "kind": kind, "v": list(v), "items": list(items)}


def lit_text(s):
    return N("lit", kind="text", v=[ord(c) for c in s])


def lit_bytes(b):
    return N("lit", kind="bytes", v=list(b))


def lit_bit(b):
    return N("lit", kind="bit", v=[b])


def regex(items, kind="text", pre=0, pre_set=""):
    """items: list of (chars, lo, hi); pre: a leading zero-width assertion, carried as a pseudo item with hi = 0 and
    lo = 1 look-behind for one of pre_set | 2 \\b | 3 \\B | 4 ^   (spec/FanIR.tla AssertionHolds)"""
    its = [{"set": sorted(ord(c) if isinstance(c, str) else c for c in cs), "lo": lo, "hi": hi} for cs, lo, hi in items]
    if pre:
        its.insert(0, {"set": sorted(ord(c) for c in pre_set), "lo": pre, "hi": 0})
    return N("re", kind=kind, items=its)


def is_assertion(it):
    return it["hi"] == 0 and it["lo"] > 0


def nt(s):
    return N("nt", s=s)


def alt(*xs):
    return N("alt", xs=xs)


def cat(*xs):
    return N("cat", xs=xs)


def rep(x, lo, hi, ref="", kind=""):
    """ref: the symbol whose number is the (upper, with kind="upto"; otherwise exact) count of a computed repetition"""
    return N("rep", xs=[x], lo=lo, hi=hi, ref=ref, kind=kind)


# ------------------------------------------------------------------ rendering

def _q(v, kind):
    if kind == "bytes":
        return 'b"' + "".join("\\x%02x" % b for b in v) + '"'
    out = []
    for cp in v:
        ch = chr(cp)
        if ch == '"' or ch == "\\":
            out.append("\\" + ch)
        elif 32 <= cp < 127:
            out.append(ch)
        elif cp < 256:
            out.append("\\x%02x" % cp)
        else:
            out.append("\\u%04x" % cp)
    return '"' + "".join(out) + '"'


def _cls(cps, kind):
    def one(c):
        ch = chr(c)
        if ch.isalnum():
            return ch
        return "\\x%02x" % c
    return "[" + "".join(one(c) for c in cps) + "]"


def _quant(lo, hi):
    if (lo, hi) == (1, 1):
        return ""
    if (lo, hi) == (0, INF):
        return "*"
    if (lo, hi) == (1, INF):
        return "+"
    if (lo, hi) == (0, 1):
        return "?"
    if hi == INF:
        return "{%d,}" % lo
    if lo == hi:
        return "{%d}" % lo
    return "{%d,%d}" % (lo, hi)


def regex_src(node):
    out = ""
    for it in node["items"]:
        if is_assertion(it):
            out += {1: "(?<=%s)" % _cls(it["set"], node["kind"]), 2: "\\b", 3: "\\B", 4: "^"}[it["lo"]]
        else:
            out += _cls(it["set"], node["kind"]) + _quant(it["lo"], it["hi"])
    return out


def render_node(n, top=False):
    k = n["k"]
    if k == "alt":
        s = " | ".join(render_node(x) for x in n["xs"])
        return s if top else "(" + s + ")"
    if k == "cat":
        s = " ".join(render_node(x) for x in n["xs"])
        return s if top else "(" + s + ")"
    if k == "rep":
        body = render_node(n["xs"][0])
        if n["xs"][0]["k"] == "rep":
            body = "(" + body + ")"
        if n["ref"]:
            if n["kind"] == "upto":
                return body + "{%d,int(%s)}" % (n["lo"], n["ref"])
            return body + "{int(%s)}" % n["ref"]
        return body + (_quant(n["lo"], n["hi"]) or "{1}")
    if k == "nt":
        return n["s"]
    if k == "lit":
        if n["kind"] == "bit":
            return str(n["v"][0])
        return _q(n["v"], n["kind"])
    if k == "re":
        return ("rb" if n["kind"] == "bytes" else "r") + '"' + regex_src(n) + '"'
    raise ValueError(k)


def render(g, constraints=()):
    """g may carry "code" (Python helper code, placed first) and "gens" (symbol -> generator expression)"""
    lines = [g["code"].rstrip("\n")] if g.get("code") else []
    order = [g["start"]] + [s for s in g["rules"] if s != g["start"]]
    for s in order:
        lines.append("%s ::= %s%s" % (s, render_node(g["rules"][s], top=True), (" := " + g["gens"][s]) if s in g.get("gens", {}) else ""))
    lines.extend(constraints)
    return "\n".join(lines) + "\n"


# ------------------------------------------------------------------ analysis used to delimit the generated family

def nullable(n, rules, seen=frozenset()):
    k = n["k"]
    if k == "alt":
        return any(nullable(x, rules, seen) for x in n["xs"])
    if k == "cat":
        return all(nullable(x, rules, seen) for x in n["xs"])
    if k == "rep":
        if n["ref"]:
            return False
        return n["lo"] == 0 or nullable(n["xs"][0], rules, seen)
    if k == "nt":
        if n["s"] in seen:
            return False
        return nullable(rules[n["s"]], rules, seen | {n["s"]})
    if k == "lit":
        return len(n["v"]) == 0
    if k == "re":
        if any(is_assertion(it) and it["lo"] in (1, 2) for it in n["items"]):
            return False        # a look-behind never holds at the start of the terminal's own text, \b needs a word character
        return all(it["lo"] == 0 for it in n["items"] if not is_assertion(it))
    return False


def first_optional(n, rules, seen=frozenset()):
    """True if the node can start with an element that may be skipped (prefix-mode hang class, C06 finding)."""
    k = n["k"]
    if k == "alt":
        return any(first_optional(x, rules, seen) for x in n["xs"])
    if k == "cat":
        return bool(n["xs"]) and (nullable(n["xs"][0], rules) or first_optional(n["xs"][0], rules, seen))
    if k == "rep":
        return n["lo"] == 0 or first_optional(n["xs"][0], rules, seen)
    if k == "nt":
        if n["s"] in seen:
            return False
        return first_optional(rules[n["s"]], rules, seen | {n["s"]})
    return nullable(n, rules)


def starts_with_regex(n, rules, seen=frozenset()):
    k = n["k"]
    if k == "re":
        return True
    if k == "alt":
        return any(starts_with_regex(x, rules, seen) for x in n["xs"])
    if k == "cat":
        for x in n["xs"]:
            if starts_with_regex(x, rules, seen):
                return True
            if not nullable(x, rules):
                return False
        return False
    if k == "rep":
        return starts_with_regex(n["xs"][0], rules, seen)
    if k == "nt":
        if n["s"] in seen:
            return False
        return starts_with_regex(rules[n["s"]], rules, seen | {n["s"]})
    return False


def regex_first_under_open_rep(g):
    """An open-ended repetition whose body can begin with a regex terminal: prefix-mode forests of such grammars do
    not end (recorded finding F29), so whole prefix-mode forests are only requested for grammars without it."""
    def walk(n):
        if n["k"] == "rep" and n["hi"] == INF and not n["ref"] and starts_with_regex(n["xs"][0], g["rules"]):
            return True
        return any(walk(x) for x in n["xs"])
    return any(walk(n) for n in g["rules"].values())


def in_family(n, rules):
    """No body that can derive the empty word under an open-ended repetition; no optional first element under * / +."""
    k = n["k"]
    if k == "rep" and n["hi"] == INF and not n["ref"]:
        if nullable(n["xs"][0], rules) or first_optional(n["xs"][0], rules):
            return False
    return all(in_family(x, rules) for x in n["xs"])


def grammar_in_family(g):
    return all(in_family(n, g["rules"]) for n in g["rules"].values())


# ------------------------------------------------------------------ random grammars

TEXT_LITS = ["a", "b", "xy", "0", "1", "c", "é", "-", ";", "abc"]
BYTE_LITS = [b"\x01", b"A", b"\x80\xff", b"\x00"]
CLASSES = ["abc", "ab", "01", "0123456789", "xyz"]
SMALL_CLASSES = ["abc", "ab", "01", "xy", "a\u00e9"]


def rand_leaf(rnd, flavour, classes=None, assertions=False):
    classes = classes or CLASSES
    r = rnd.random()
    if flavour == "bits":
        return lit_bit(rnd.randint(0, 1))
    if flavour == "bytes":
        if r < 0.6:
            return lit_bytes(rnd.choice(BYTE_LITS))
        if r < 0.8:
            return lit_text(rnd.choice(["a", "xy", "0", "\u00e9"]))
        # a bytes regex over an ASCII class (binary regexes over other bytes meet the text/bytes views of finding F15's family)
        return regex([(list(b"AB"), 1, rnd.choice([1, 2]))], kind="bytes")
    if r < 0.75:
        return lit_text(rnd.choice(TEXT_LITS))
    lo, hi = rnd.choice([(1, 1), (1, 2), (1, 3), (2, 2), (0, 2), (1, INF), (0, INF)])
    items = [(rnd.choice(classes), lo, hi)]
    if rnd.random() < 0.3:
        items.append((rnd.choice(classes), 1, 1))
    if assertions and rnd.random() < 0.4:
        # a regex terminal is matched against its own text: what precedes it in the input must not matter.  The match is
        # made non-empty: for an empty match \\b / \\B look at the character that FOLLOWS the terminal in the input (the
        # scanner matches against the rest of the input), which no context-free reading of the grammar can express
        items[0] = (items[0][0], max(1, items[0][1]), items[0][2])
        return regex(items, pre=rnd.choice([1, 2, 3, 3, 4]), pre_set=rnd.choice(classes))
    return regex(items)


def rand_node(rnd, depth, nts, flavour, regex_ok=True, classes=None, assertions=False):
    r = rnd.random()
    if depth <= 0 or r < 0.28:
        if nts and rnd.random() < 0.45:
            return nt(rnd.choice(nts))
        leaf = rand_leaf(rnd, flavour, classes, assertions)
        if leaf["k"] == "re" and not regex_ok:
            return lit_text(rnd.choice(TEXT_LITS))
        return leaf
    if r < 0.48:
        return alt(*[rand_node(rnd, depth - 1, nts, flavour, regex_ok, classes, assertions) for _ in range(rnd.randint(2, 3))])
    if r < 0.74:
        return cat(*[rand_node(rnd, depth - 1, nts, flavour, regex_ok, classes, assertions) for _ in range(rnd.randint(2, 3))])
    lo, hi = rnd.choice([(0, INF), (1, INF), (0, 1), (2, 2), (1, 3), (0, 2), (2, INF), (1, 2), (3, 3)])
    return rep(rand_node(rnd, depth - 1, nts, flavour, regex_ok, classes, assertions), lo, hi)


def rand_grammar(rnd, flavour=None, regex_ok=True, computed=None, recursion=True, classes=None, assertions=False):
    """A random grammar of the generated family (retries until grammar_in_family)."""
    flavour = flavour or rnd.choice(["text", "text", "text", "bytes", "bits"])
    for _ in range(200):
        k = rnd.randint(2, 4)
        nts = ["<n%d>" % i for i in range(1, k + 1)]
        rules = {}
        rules["<start>"] = rand_node(rnd, 2, nts, flavour, regex_ok, classes, assertions)
        for i, s in enumerate(nts):
            later = nts[i + 1:]
            body = rand_node(rnd, 2, later, flavour, regex_ok, classes, assertions)
            fallback = rand_leaf(rnd, flavour, classes)
            if fallback["k"] == "re":
                fallback = lit_text(chr(99 + i))
            if recursion and rnd.random() < 0.25:
                # direct recursion guarded by a literal alternative
                body = alt(cat(rand_leaf(rnd, flavour) if flavour != "text" else lit_text("("), nt(s)), body)
            rules[s] = alt(body, fallback)
        use_comp = computed if computed is not None else (flavour == "text" and rnd.random() < 0.3)
        variant = 0
        if use_comp:
            variant = use_comp if isinstance(use_comp, int) and not isinstance(use_comp, bool) else rnd.choice([1, 2, 3])
            rules["<len>"] = alt(lit_text("1"), lit_text("2"), lit_text("3"), lit_text("4"))
            rules["<item>"] = alt(lit_text("p"), lit_text("q"))
            if variant in (1, 4):
                body = nt("<item>")
            elif variant == 2:    # multi-symbol body
                rules["<val>"] = alt(lit_text("x"), lit_text("y"), lit_text("zz"))
                body = cat(nt("<item>"), lit_text("="), nt("<val>"))
            else:                 # multi-symbol body that ends in a terminal
                body = cat(nt("<item>"), lit_text(","))
            if variant == 4:      # the count may be 0 (the repetition is then absent) and is compared with a second field
                rules["<len>"] = alt(lit_text("0"), lit_text("1"), lit_text("2"), lit_text("3"))
                rules["<trail>"] = alt(lit_text("0"), lit_text("1"), lit_text("2"), lit_text("3"))
                rules["<rec>"] = cat(nt("<len>"), lit_text(":"), rep(nt("<item>"), 0, INF, ref="<len>"), lit_text(";"), nt("<trail>"))
            else:
                rules["<rec>"] = cat(nt("<len>"), lit_text(":"), rep(body, 1, INF, ref="<len>"), lit_text("."))
            # exactly one record per tree: two records whose iterations share origin tags after a copy are the
            # recorded origin-tag finding (F19), replayed as a pinned witness only
            rules["<start>"] = cat(rules["<start>"], nt("<rec>"))
        g = {"start": "<start>", "rules": rules, "flavour": flavour, "computed": variant}
        if grammar_in_family(g) and _reachable_ok(g):
            return g
    raise RuntimeError("could not generate a grammar in the family")


def rand_nullable_grammar(rnd):
    """A named nonterminal that derives the empty word and is expected at several places, some of them at the same
    input position (after it has already been completed there) - the class of finding F38."""
    y, c, d, a = lit_text("y"), lit_text("c"), lit_text("d"), lit_text("a")
    o_forms = [rep(y, 0, 1), alt(lit_text(""), y), rep(y, 0, 2), regex([("y", 0, 1)]), alt(rep(y, 0, 1), lit_text("z")),
               cat(rep(y, 0, 1), rep(lit_text("z"), 0, 1))]
    o, x, pp = nt("<o>"), nt("<x>"), nt("<p>")
    rules = {"<o>": rnd.choice(o_forms)}
    shape = rnd.randint(1, 8)
    if shape == 1:
        rules["<start>"], rules["<x>"] = cat(o, x), cat(o, c)
    elif shape == 2:
        rules["<start>"] = cat(o, o, c)
    elif shape == 3:
        rules["<start>"], rules["<x>"] = cat(x, x), cat(o, alt(c, d))
    elif shape == 4:
        rules["<start>"], rules["<x>"] = cat(o, x), alt(cat(o, c), d)
    elif shape == 5:
        rules["<start>"], rules["<x>"] = cat(a, o, x, o), cat(o, c, o)
    elif shape == 6:
        rules["<start>"], rules["<p>"], rules["<x>"] = cat(pp, x), cat(o, o), cat(pp, c)
    elif shape == 7:
        rules["<start>"], rules["<x>"] = cat(rep(o, 0, 1), x, rep(x, 0, 1)), cat(o, alt(c, cat(o, d)))
    else:
        rules["<start>"], rules["<x>"], rules["<p>"] = cat(o, pp), cat(o, c), alt(x, cat(o, x, o))
    rules = {"<start>": rules.pop("<start>"), **rules}
    return {"start": "<start>", "rules": rules, "flavour": "text", "computed": 0}


def _reachable_ok(g):
    # every rule must be able to terminate: guaranteed by the literal fallback; nothing else to check
    return True


CONSTRAINT_TEMPLATES = [
    [],
    ['where len(str(<start>)) >= 3'],
    ['where len(str(<start>)) % 2 == 0'],
    ['where str(<start>).count("a") >= 1'],
    ['where len(str(<start>)) > 2', 'where str(<start>)[0] != "a"'],
    ['where len(str(<n1>)) >= 1'],
    ['where str(<n2>) != "b"'],
]


COMPUTED_CONSTRAINTS = [
    [], ['where int(<len>) < 3'], ['where int(<len>) >= 2'], ['where str(<item>) == "p"'],
    ['where int(<len>) < 3', 'where len(str(<start>)) % 2 == 1'], ['where int(<len>) == 2'],
]


def rand_constraints(rnd, g):
    if g.get("computed") == 4:
        return rnd.choice([['where str(<len>) == str(<trail>)'], ['where str(<len>) == str(<trail>)', 'where int(<trail>) >= 2'],
                           ['where int(<len>) + int(<trail>) == 3'], []])
    if g.get("computed"):
        return rnd.choice(COMPUTED_CONSTRAINTS)
    if g.get("flavour") != "text":
        return rnd.choice([[], ['where len(bytes(<start>)) >= 1'] if g.get("flavour") == "bytes" else []])
    return rnd.choice(CONSTRAINT_TEMPLATES)


def relaxed(g):
    """The grammar with computed repetitions read as the reader declares them: {1,} plus a constraint.
    Intermediate trees of the search (population members, operator results) are derivations of this grammar;
    only emitted solutions have to obey the computed counts."""
    def rx(n):
        m = dict(n)
        m["xs"] = [rx(x) for x in n["xs"]]
        if m["k"] == "rep" and m["ref"]:
            m["ref"], m["lo"], m["hi"] = "", 1, INF
        return m
    return {"start": g["start"], "rules": {s: rx(n) for s, n in g["rules"].items()}, "flavour": g.get("flavour")}


def rand_bits_grammar(rnd, total=8):
    """A bit-level grammar all of whose words have exactly `total` bits: a sequence of fixed-width fields."""
    widths = []
    left = total
    while left > 0:
        w = rnd.randint(1, min(4, left))
        widths.append(w)
        left -= w
    rules = {"<bit>": alt(lit_bit(0), lit_bit(1))}
    parts = []
    free = [0]          # number of unconstrained bits so far: keeps the language (and its enumeration) small

    def free_bits(w):
        free[0] += w
        return free[0] <= 5
    for i, w in enumerate(widths):
        name = "<f%d>" % (i + 1)
        opts = []
        for _ in range(rnd.randint(1, 3)):
            r = rnd.random()
            if r < 0.4:
                opts.append(cat(*[lit_bit(rnd.randint(0, 1)) for _ in range(w)]) if w > 1 else lit_bit(rnd.randint(0, 1)))
            elif r < 0.7 and free_bits(w):
                opts.append(rep(nt("<bit>"), w, w))
            elif not free_bits(1):
                opts.append(cat(*[lit_bit(rnd.randint(0, 1)) for _ in range(w)]) if w > 1 else lit_bit(rnd.randint(0, 1)))
            else:
                k = rnd.randint(max(0, w - 2), w - 1)
                xs = [lit_bit(rnd.randint(0, 1)) for _ in range(k)] + [rep(nt("<bit>"), w - k, w - k)]
                opts.append(cat(*xs) if len(xs) > 1 else xs[0])
        rules[name] = alt(*opts) if len(opts) > 1 else opts[0]
        parts.append(nt(name))
    rules["<start>"] = cat(*parts) if len(parts) > 1 else parts[0]
    return {"start": "<start>", "rules": rules, "flavour": "bits"}


def count_derivations(g, max_units, cap=10 ** 7):
    """Number of derivation trees of words with <= max_units units (an estimate used only to keep the enumerated
    corpus small; repetition counts capped at max_units + 1 like spec/Lang.tla)."""
    rules = g["rules"]
    memo = {}
    busy = set()

    def conv(a, b):
        out = [0] * (max_units + 1)
        for i, x in enumerate(a):
            if x:
                for j, y in enumerate(b):
                    if y and i + j <= max_units:
                        out[i + j] = min(cap, out[i + j] + x * y)
        return out

    def cnt(n):
        k = n["k"]
        if k == "lit":
            out = [0] * (max_units + 1)
            if len(n["v"]) <= max_units:
                out[len(n["v"])] = 1
            return out
        if k == "re":
            out = [1] + [0] * max_units
            for it in n["items"]:
                if is_assertion(it):
                    continue
                one = [0] * (max_units + 1)
                for c in range(it["lo"], min(it["hi"], max_units) + 1):
                    one[c] = min(cap, len(it["set"]) ** c)
                out = conv(out, one)
            return out
        if k == "nt":
            s_ = n["s"]
            if s_ in memo:
                return memo[s_]
            if s_ in busy:
                return prev_memo.get(s_, [0] * (max_units + 1))
            busy.add(s_)
            r = cnt(rules[s_])
            busy.discard(s_)
            memo[s_] = r
            return r
        if k == "alt":
            out = [0] * (max_units + 1)
            for x in n["xs"]:
                out = [min(cap, a + b) for a, b in zip(out, cnt(x))]
            return out
        if k == "cat":
            out = [1] + [0] * max_units
            for x in n["xs"]:
                out = conv(out, cnt(x))
            return out
        if k == "rep":
            body = cnt(n["xs"][0])
            hi = min(n["hi"], max_units + 1)
            out = [0] * (max_units + 1)
            power = [1] + [0] * max_units
            for c in range(0, hi + 1):
                if c >= n["lo"]:
                    out = [min(cap, a + b) for a, b in zip(out, power)]
                power = conv(power, body)
            return out
        return [0] * (max_units + 1)
    # recursion through `busy` undercounts recursive rules on the first pass: iterate to a fixed point
    prev = None
    prev_memo = {}
    for _ in range(2 * max_units + 4):
        memo.clear()
        total = sum(cnt(rules[g["start"]]))
        prev_memo = dict(memo)
        if total == prev:
            break
        prev = total
    return prev or 0
