"""Real Fandango grammar objects -> grammar IR (spec/FanIR.tla).  Used where the reader is trusted or is itself the
subject (C15 print/re-read, C14 reader comparison)."""
from fandango.language.grammar.nodes.alternative import Alternative
from fandango.language.grammar.nodes.char_set import CharSet
from fandango.language.grammar.nodes.concatenation import Concatenation
from fandango.language.grammar.nodes.non_terminal import NonTerminalNode
from fandango.language.grammar.nodes.repetition import Repetition
from fandango.language.grammar.nodes.terminal import TerminalNode

from harness.fan import leaf_kind_val
from harness.gen import INF, N


def node_ir(n):
    if isinstance(n, Alternative):
        return N("alt", xs=[node_ir(c) for c in n.alternatives])
    if isinstance(n, Concatenation):
        return N("cat", xs=[node_ir(c) for c in n.nodes])
    if isinstance(n, Repetition):
        hi = INF if n.internal_max is None else n.internal_max
        r = N("rep", xs=[node_ir(n.node)], lo=n.min, hi=hi)
        if n.bounds_constraint is not None:
            r["ref"] = "computed"
        return r
    if isinstance(n, NonTerminalNode):
        r = N("nt", s=n.symbol.format_as_spec())
        r["snd"] = n.sender or ""
        r["rcp"] = n.recipient or ""
        return r
    if isinstance(n, TerminalNode):
        kind, val = leaf_kind_val(n.symbol)
        if n.symbol.is_regex:
            r = N("re", kind=kind, v=val)      # the regex source travels in v
            return r
        return N("lit", kind=kind, v=val)
    if isinstance(n, CharSet):
        return N("lit", kind="charset", v=[ord(c) for c in n.chars])
    raise TypeError(type(n))


def grammar_ir(grammar, start="<start>"):
    rules = {}
    for k, v in grammar.rules.items():
        rules[k.format_as_spec()] = node_ir(v)
    gens = {k.format_as_spec(): str(v) for k, v in grammar.generators.items()}
    return {"start": start, "rules": rules, "gens": gens}


def uniform(n):
    """make every node carry the same fields (TLC's JSON records)"""
    n.setdefault("snd", "")
    n.setdefault("rcp", "")
    for x in n["xs"]:
        uniform(x)
    return n
