"""Builds Trace_Tree event files and runs the TLC judge."""
import json
import os

from harness import common
from harness.common import run_tlc, subdir
from harness.fan import tree_ir


class TreeTrace:
    """Collects grammars and trees; judge() writes them as Trace_Tree event files - split into several files that are
    validated by TLC processes running side by side when the trace is large - and merges the verdicts."""

    def __init__(self, name):
        self.name = name
        self.glines = {}
        self.tlines = []
        self.n = 0
        self.ntrees = 0
        self.meta = {}
        self.tid = 0
        self.idx = 0

    def grammar(self, gid, g):
        if gid not in self.glines:
            self.n += 1
        self.glines[gid] = json.dumps({"ev": "G", "gid": gid, "g": {"start": g["start"], "rules": g["rules"]}})

    def new_trace(self, info):
        self.tid += 1
        self.idx = 0
        self.meta[self.tid] = {"info": info, "trees": {}}
        return self.tid

    def tree(self, gid, start, tree, label, input_kind="none", input_val=()):
        ir = tree if isinstance(tree, dict) else tree_ir(tree)
        self.tlines.append((self.tid, gid, json.dumps({"ev": "T", "gid": gid, "tid": self.tid, "idx": self.idx, "start": start,
                                                       "tree": ir, "input": {"kind": input_kind, "val": list(input_val)}})))
        self.meta[self.tid]["trees"][self.idx] = (label, ir)
        self.idx += 1
        self.n += 1
        self.ntrees += 1

    def judge(self, rep, label="Trace_Tree"):
        """Runs TLC; returns list of (tid, idx, clause, label, tree-ir, info)."""
        from concurrent.futures import ThreadPoolExecutor
        # TLC cannot follow a behaviour of 65536 or more states, and one event is one state: at most 30000 events per file
        nshards = max(1, min(8, self.ntrees // 4000), -(-(self.ntrees + len(self.glines)) // 30000))
        shards = []
        for i in range(nshards):
            ts = [t for t in self.tlines if t[0] % nshards == i]
            if not ts and nshards > 1:
                continue
            path = os.path.join(subdir("treetrace"), "%s.%d.ndjson" % (self.name, i))
            gids = []
            for _tid, gid, _l in ts:
                if gid not in gids:
                    gids.append(gid)
            if nshards == 1:
                gids = list(self.glines)
            with open(path, "w") as fh:
                for gid in gids:
                    fh.write(self.glines[gid] + "\n")
                for _tid, _gid, line in ts:
                    fh.write(line + "\n")
            shards.append((path, len(gids) + len(ts)))

        def one(sh):
            return run_tlc("Trace_Tree", "Trace_Tree", workers=1, env={"TRACE_FILE": sh[0]}, timeout=3000, heap="8g" if nshards == 1 else "4g")
        with ThreadPoolExecutor(min(8, len(shards))) as ex:
            results = list(ex.map(one, shards))
        out = []
        for (path, want), r in zip(shards, results):
            rep.tlc(r, label if nshards == 1 else "%s[%d events]" % (label, want))
            cons = [l for l in r.out.splitlines() if l.startswith('<<"CONSUMED"')]
            if not cons or ("%d," % want) not in cons[0]:
                raise common.Machinery("%s did not consume the whole trace (%d events): %s" % (label, want, cons))
            bad = r.printed("BAD")
            for b in (bad[0] if bad else []):
                lab, ir = self.meta[b["tid"]]["trees"][b["idx"]]
                out.append((b["tid"], b["idx"], b["clause"], lab, ir, self.meta[b["tid"]]["info"]))
        return out


def ir_text(ir):
    if ir["term"]:
        if ir["kind"] == "text":
            return "".join(chr(c) for c in ir["val"])
        if ir["kind"] == "bit":
            return str(ir["val"][0])
        return "".join("\\x%02x" % c for c in ir["val"])
    return "".join(ir_text(c) for c in ir["ch"])


def ir_shape(ir):
    if ir["term"]:
        return repr(ir_text(ir))
    return ir["sym"] + "(" + ",".join(ir_shape(c) for c in ir["ch"]) + ")"
