"""Builds Trace_Tree event files and runs the TLC judge."""
import json
import os

from harness import common
from harness.common import run_tlc, subdir
from harness.fan import tree_ir


class TreeTrace:
    def __init__(self, name):
        self.path = os.path.join(subdir("treetrace"), name + ".ndjson")
        self.fh = open(self.path, "w")
        self.n = 0
        self.ntrees = 0
        self.meta = {}
        self.tid = 0
        self.idx = 0

    def grammar(self, gid, g):
        self.fh.write(json.dumps({"ev": "G", "gid": gid, "g": {"start": g["start"], "rules": g["rules"]}}) + "\n")
        self.n += 1

    def new_trace(self, info):
        self.tid += 1
        self.idx = 0
        self.meta[self.tid] = {"info": info, "trees": {}}
        return self.tid

    def tree(self, gid, start, tree, label, input_kind="none", input_val=()):
        ir = tree if isinstance(tree, dict) else tree_ir(tree)
        self.fh.write(json.dumps({"ev": "T", "gid": gid, "tid": self.tid, "idx": self.idx, "start": start,
                                  "tree": ir, "input": {"kind": input_kind, "val": list(input_val)}}) + "\n")
        self.meta[self.tid]["trees"][self.idx] = (label, ir)
        self.idx += 1
        self.n += 1
        self.ntrees += 1

    def judge(self, rep, label="Trace_Tree"):
        """Runs TLC; returns list of (tid, idx, clause, label, tree-ir, info)."""
        self.fh.close()
        r = run_tlc("Trace_Tree", "Trace_Tree", workers=1, env={"TRACE_FILE": self.path}, timeout=3000, heap="8g")
        rep.tlc(r, label)
        cons = [l for l in r.out.splitlines() if l.startswith('<<"CONSUMED"')]
        if not cons or ("%d," % self.n) not in cons[0]:
            raise common.Machinery("%s did not consume the whole trace (%d events): %s" % (label, self.n, cons))
        bad = r.printed("BAD")
        out = []
        for b in (bad[0] if bad else []):
            lab, ir = self.meta[b["tid"]]["trees"][b["idx"]]
            out.append((b["tid"], b["idx"], b["clause"], lab, ir, self.meta[b["tid"]]["info"]))
        return out


def ir_text(ir):
    if ir["term"]:
        if ir["kind"] == "text":
            return "".join(chr(c) for c in ir["val"])
        if ir["kind"] == "bit":
            return str(ir["val"][0])
        return "".join("\\x%02x" % c for c in ir["val"])
    return "".join(ir_text(c) for c in ir["ch"])


def ir_shape(ir):
    if ir["term"]:
        return repr(ir_text(ir))
    return ir["sym"] + "(" + ",".join(ir_shape(c) for c in ir["ch"]) + ")"
