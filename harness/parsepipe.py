"""Shared pipeline of C04/C05/C06/C13: generated grammars -> TLC-enumerated languages -> real parser."""
import random
import signal
import time

from harness import common, gen
from harness.common import pmap
from harness.langenum import enumerate_languages, near_misses


class Timeout(BaseException):
    pass


def _alarm(signum, frame):
    raise Timeout()


def with_timeout(fn, seconds):
    old = signal.signal(signal.SIGALRM, _alarm)
    signal.setitimer(signal.ITIMER_REAL, seconds)
    try:
        return fn()
    finally:
        signal.setitimer(signal.ITIMER_REAL, 0)
        signal.signal(signal.SIGALRM, old)


def real_input(word):
    if isinstance(word, tuple):  # bits
        if len(word) % 8:
            return None
        return bytes(int("".join(map(str, word[i:i + 8])), 2) for i in range(0, len(word), 8))
    return word


def input_event(word):
    w = real_input(word)
    if isinstance(w, str):
        return "text", [ord(c) for c in w]
    return "bytes", list(w)


def build_corpus(rep, seed, n_grammars, max_units, bits_share=0.15, bytes_share=0.2, regex_ok=True, extra=None, nullable=None):
    """-> list of case dicts {gid, g, spec, enum, inside, outside}"""
    rnd = random.Random(seed)
    grammars = {}
    gid = 0
    while len(grammars) < n_grammars:
        gid += 1
        r = rnd.random()
        if r < bits_share:
            g = gen.rand_bits_grammar(rnd, 8)
        else:
            flavour = "bytes" if r < bits_share + bytes_share else "text"
            g = gen.rand_grammar(rnd, flavour=flavour, regex_ok=regex_ok, computed=False, classes=gen.SMALL_CLASSES)
        if gen.count_derivations(g, 8 if g["flavour"] == "bits" else max_units) > 2500:
            continue        # keeps the exhaustive enumeration of the corpus small (a corpus choice, not an oracle)
        grammars[gid] = g
    for g in (extra or []):
        gid += 1
        grammars[gid] = g
    # grammars in which a named empty-deriving symbol is expected at several places (same input position included)
    seen = set()
    rnd2 = random.Random(seed + 77)
    want = max(4, n_grammars // 5) if nullable is None else nullable
    for _ in range(want * 20):
        if len(seen) >= want:
            break
        g = gen.rand_nullable_grammar(rnd2)
        key = gen.render(g)
        if key in seen or gen.count_derivations(g, max_units) > 2500:
            continue
        seen.add(key)
        gid += 1
        grammars[gid] = g
    text_like = {k: g for k, g in grammars.items() if g["flavour"] != "bits"}
    bits = {k: g for k, g in grammars.items() if g["flavour"] == "bits"}
    res = {}
    if text_like:
        res.update(enumerate_languages(rep, text_like, max_units, max_nodes=45))
    if bits:
        res.update(enumerate_languages(rep, bits, 8, max_nodes=60, label="Lang-bits"))
    cases = []
    for k in sorted(grammars):
        g = grammars[k]
        e = res[k]
        bound = 8 if g["flavour"] == "bits" else max_units
        inside = sorted(e.words, key=repr)
        outside = [] if e.truncated else near_misses(inside, bound, rnd, limit=120)
        if g["flavour"] == "bits":
            outside = [w for w in outside if len(w) == 8]
        if len(inside) > 150:
            inside = rnd.sample(inside, 150)
        cases.append({"gid": k, "g": g, "spec": gen.render(g), "enum": e, "inside": inside, "outside": outside})
    return cases


def _parse_case(args):
    """worker: parse every word of one case with the real parser; returns {word: (trees_ir, status)}"""
    from harness.fan import make, normalise, quiet, tree_ir
    from fandango.language.grammar import ParsingMode
    case_spec, words, dcount, start, per_word_timeout = args
    quiet()
    normalise(0)
    out = {}
    try:
        f = make(case_spec)
    except Exception as e:  # noqa
        return {"__reader__": "%s: %s" % (type(e).__name__, str(e)[:200])}
    for w in words:
        inp = real_input(w)
        if inp is None:
            continue
        forest = dcount.get(w, 0) <= 50

        def go():
            gen_ = f.grammar.parse_forest(inp, start, mode=ParsingMode.COMPLETE)
            trees = []
            for t in gen_:
                trees.append(tree_ir(t))
                if not forest or len(trees) >= 60:
                    break
            gen_.close()
            return trees
        t0 = time.time()
        try:
            trees = with_timeout(go, per_word_timeout)
            out[w] = (trees, "ok")
        except Timeout:
            out[w] = ([], "timeout")
            f = make(case_spec)  # the interrupted parser object is in an undefined state
        except Exception as e:  # noqa
            out[w] = ([], "exc:" + type(e).__name__)
        if time.time() - t0 > per_word_timeout:
            pass
    return out


def parse_corpus(cases, per_word_timeout=8.0):
    jobs = []
    for c in cases:
        words = list(c["inside"]) + list(c["outside"])
        dcount = {w: len(c["enum"].words.get(w, [])) for w in words}
        jobs.append((c["spec"], words, dcount, c["g"]["start"], per_word_timeout))
    results = pmap(_parse_case, jobs)
    for c, r in zip(cases, results):
        c["parsed"] = r
    return cases
