"""Shared pipeline of C04/C05/C06/C13: generated grammars -> TLC-enumerated languages -> real parser."""
import random
import signal
import time

from harness import common, gen
from harness.common import pmap
from harness.langenum import enumerate_languages, near_misses


class Timeout(BaseException):
    pass


def _alarm(signum, frame):
    raise Timeout()


def with_timeout(fn, seconds):
    """Run fn() under a budget of `seconds` of CPU time of this process (robust against a loaded machine); a wall-clock
    timer of ten times that is the safety net for code that blocks without computing."""
    old_r = signal.signal(signal.SIGALRM, _alarm)
    old_v = signal.signal(signal.SIGVTALRM, _alarm)
    signal.setitimer(signal.ITIMER_VIRTUAL, seconds)
    signal.setitimer(signal.ITIMER_REAL, seconds * 10)
    try:
        return fn()
    finally:
        signal.setitimer(signal.ITIMER_VIRTUAL, 0)
        signal.setitimer(signal.ITIMER_REAL, 0)
        signal.signal(signal.SIGALRM, old_r)
        signal.signal(signal.SIGVTALRM, old_v)


def real_input(word):
    if isinstance(word, tuple):  # bits
        if len(word) % 8:
            return None
        return bytes(int("".join(map(str, word[i:i + 8])), 2) for i in range(0, len(word), 8))
    return word


def input_event(word):
    w = real_input(word)
    if isinstance(w, str):
        return "text", [ord(c) for c in w]
    return "bytes", list(w)


def build_corpus(rep, seed, n_grammars, max_units, bits_share=0.15, bytes_share=0.2, regex_ok=True, extra=None, nullable=None):
    """-> list of case dicts {gid, g, spec, enum, inside, outside}"""
    rnd = random.Random(seed)
    grammars = {}
    gid = 0
    while len(grammars) < n_grammars:
        gid += 1
        r = rnd.random()
        if r < bits_share:
            g = gen.rand_bits_grammar(rnd, 8)
        else:
            flavour = "bytes" if r < bits_share + bytes_share else "text"
            g = gen.rand_grammar(rnd, flavour=flavour, regex_ok=regex_ok, computed=False, classes=gen.SMALL_CLASSES,
                                 assertions=(flavour == "text" and rnd.random() < 0.35))
        if gen.count_derivations(g, 8 if g["flavour"] == "bits" else max_units) > 2500:
            continue        # keeps the exhaustive enumeration of the corpus small (a corpus choice, not an oracle)
        grammars[gid] = g
    for g in (extra or []) + (mixed_grammars() if bytes_share > 0 else []) + (assertion_grammars() if regex_ok else []) + counted_nullable_grammars():
        gid += 1
        grammars[gid] = g
    # grammars in which a named empty-deriving symbol is expected at several places (same input position included)
    seen = set()
    rnd2 = random.Random(seed + 77)
    want = max(4, n_grammars // 5) if nullable is None else nullable
    for _ in range(want * 20):
        if len(seen) >= want:
            break
        g = gen.rand_nullable_grammar(rnd2)
        key = gen.render(g)
        if key in seen or gen.count_derivations(g, max_units) > 2500:
            continue
        seen.add(key)
        gid += 1
        grammars[gid] = g
    # grammars whose regexes carry a leading zero-width assertion: the same grammar without the assertions is enumerated
    # as well; its words that the real grammar does not have are exactly the inputs a context-sensitive scan would accept
    stripped = {}
    for k, g in list(grammars.items()):
        if any(gen.is_assertion(it) for n in _regex_nodes(g) for it in n["items"]):
            stripped[k] = 100000 + k
            grammars[100000 + k] = _strip_assertions(g)
    text_like = {k: g for k, g in grammars.items() if g["flavour"] != "bits"}
    bits = {k: g for k, g in grammars.items() if g["flavour"] == "bits"}
    res = {}
    if text_like:
        res.update(enumerate_languages(rep, text_like, max_units, max_nodes=45))
    if bits:
        res.update(enumerate_languages(rep, bits, 8, max_nodes=60, label="Lang-bits"))
    cases = []
    for k in sorted(grammars):
        if k >= 100000:
            continue
        g = grammars[k]
        e = res[k]
        bound = 8 if g["flavour"] == "bits" else max_units
        inside = sorted(e.words, key=repr)
        outside = [] if e.truncated else near_misses(inside, bound, rnd, limit=120)
        if g["flavour"] == "bits":
            outside = [w for w in outside if len(w) == 8]
        if k in stripped and not e.truncated:
            extra_out = sorted(set(res[stripped[k]].words) - set(e.words), key=repr)
            outside = extra_out[:80] + outside
        if len(inside) > 150:
            inside = rnd.sample(inside, 150)
        if g["flavour"] == "bytes":
            # a word of a binary grammar whose derivations consist of text literals only is also a word when it is given as
            # text: both spellings go through the SAME spec object, one after the other
            from harness.langenum import leaves_of
            for w in list(inside):
                ders = e.words.get(w, [])
                if ders and all(k == "text" for d in ders for k, _v in leaves_of(d)):
                    try:
                        ws = w.decode("utf-8")
                    except UnicodeDecodeError:
                        continue
                    if ws and ws not in e.words:
                        e.words[ws] = ders
                        inside.append(ws)
        cases.append({"gid": k, "g": g, "spec": gen.render(g), "enum": e, "inside": inside, "outside": outside})
    return cases


def assertion_grammars():
    """regex terminals with each kind of leading zero-width assertion, placed after input that would satisfy (or falsify)
    the assertion if the terminal could see it"""
    T = gen.lit_text
    R = lambda cls, lo, hi, pre, ps="": gen.regex([(cls, lo, hi)], pre=pre, pre_set=ps)     # noqa
    bodies = [gen.cat(T("a"), gen.alt(R("xy", 1, 2, 1, "a"), T("c"))),                 # (?<=[a])[xy]{1,2} after "a"
              gen.cat(gen.regex([("ab", 1, 2)]), gen.alt(R("ab", 1, 2, 3), T("-")), T("z")),     # \B[ab]{1,2} after letters
              gen.cat(T("w"), gen.alt(R(";-", 1, 1, 2), T("0"))),                      # \b[;-] after a word character
              gen.cat(T("x"), R("ab", 1, 2, 4)),                                       # ^[ab]{1,2} in the middle of the input
              gen.cat(gen.rep(T("-"), 0, 1), R("ab", 1, 2, 2), T(";"))]                # \b[ab]{1,2} after an optional non-word character
    return [{"start": "<start>", "rules": {"<start>": b}, "flavour": "text", "computed": 0} for b in bodies]


def counted_nullable_grammars():
    """counted repetitions {n}, {n,m} (n >= 2) over bodies that can be empty: words that need two or more adjacent empty
    iterations"""
    T = gen.lit_text
    opt = lambda x: gen.rep(x, 0, 1)     # noqa
    bodies = [gen.cat(gen.rep(opt(T("a")), 2, 3), T("c")),
              gen.cat(gen.rep(T("a"), 2, 2), gen.rep(opt(T("b")), 2, 2)),
              gen.cat(T("<"), gen.rep(gen.nt("<o>"), 3, 3), T(">")),
              gen.cat(T("["), gen.rep(gen.cat(opt(T("+")), opt(T("f"))), 2, 2), T("]"))]
    out = []
    for b in bodies:
        out.append({"start": "<start>", "rules": {"<start>": b, "<o>": gen.alt(T(""), T("y"))}, "flavour": "text", "computed": 0})
    return out


def mixed_grammars():
    """binary grammars with a bytes regex that also derive words made of text literals only: such a word is a word in both
    spellings, and both are parsed by one spec object"""
    T, B, R = gen.lit_text, gen.lit_bytes, lambda lo, hi: gen.regex([(list(b"AB"), lo, hi)], kind="bytes")
    bodies = [gen.alt(T("a"), R(1, 2)),
              gen.cat(gen.alt(T("xy"), B(b"\x01")), gen.alt(T("0"), R(1, 2))),
              gen.alt(gen.cat(T("a"), T("b")), gen.cat(R(1, 1), B(b"\x00"))),
              gen.cat(gen.rep(T("c"), 0, 2), gen.alt(R(1, 2), T("d")))]
    return [{"start": "<start>", "rules": {"<start>": b}, "flavour": "bytes", "computed": 0} for b in bodies]


def _regex_nodes(g):
    out = []

    def walk(n):
        if n["k"] == "re":
            out.append(n)
        for x in n["xs"]:
            walk(x)
    for r in g["rules"].values():
        walk(r)
    return out


def _strip_assertions(g):
    def rx(n):
        m = dict(n)
        m["xs"] = [rx(x) for x in n["xs"]]
        if m["k"] == "re":
            m["items"] = [it for it in n["items"] if not gen.is_assertion(it)]
        return m
    return dict(g, rules={s: rx(n) for s, n in g["rules"].items()})


def _parse_case(args):
    """worker: parse every word of one case with the real parser; returns {word: (trees_ir, status)}"""
    from harness.fan import make, normalise, quiet, tree_ir
    from fandango.language.grammar import ParsingMode
    case_spec, words, dcount, start, per_word_timeout = args
    quiet()
    normalise(0)
    out = {}
    try:
        f = make(case_spec)
    except Exception as e:  # noqa
        return {"__reader__": "%s: %s" % (type(e).__name__, str(e)[:200])}
    for w in words:
        inp = real_input(w)
        if inp is None:
            continue
        forest = dcount.get(w, 0) <= 50

        def go():
            gen_ = f.grammar.parse_forest(inp, start, mode=ParsingMode.COMPLETE)
            trees = []
            for t in gen_:
                trees.append(tree_ir(t))
                if not forest or len(trees) >= 60:
                    break
            gen_.close()
            return trees
        t0 = time.time()
        try:
            trees = with_timeout(go, per_word_timeout)
            out[w] = (trees, "ok")
        except Timeout:
            out[w] = ([], "timeout")
            f = make(case_spec)  # the interrupted parser object is in an undefined state
        except Exception as e:  # noqa
            out[w] = ([], "exc:" + type(e).__name__)
        if time.time() - t0 > per_word_timeout:
            pass
    return out


def parse_corpus(cases, per_word_timeout=8.0):
    jobs = []
    for c in cases:
        words = list(c["inside"]) + list(c["outside"])
        dcount = {w: len(c["enum"].words.get(w, [])) for w in words}
        jobs.append((c["spec"], words, dcount, c["g"]["start"], per_word_timeout))
    results = pmap(_parse_case, jobs)
    for c, r in zip(cases, results):
        c["parsed"] = r
    return cases
