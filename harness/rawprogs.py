"""Python programs in spellings that ast.unparse never produces (C08 feeds them as they are, not canonicalised)."""

RAW = [
    # layout / spacing
    "x = 1_000", "x = f'{b=}'", "x = f'just text here'", "x = f'{ {a: b}}'", "x = 0b1010 + 0o17", "x = 'a' \"b\" 'c'", "x = (\n    1 +\n    2)",
    "x = a if b else(c)", "x = [1,2 , 3]", "x  =  a  ;  y = b", "x = a<b>c", "x = a   is   not   b", "x = not  a", "def f( a , b = 1 ) : return a",
    # one-element tuples written with a trailing comma (ast.unparse parenthesises them)
    "x = a,", "x, = f()", "x += a,", "for i, in y:\n    pass", "x = a[b,]", "def f():\n    return a,", "def f():\n    yield a,",
    "x = [i for i, in y]", "x = a, b", "x, y = f()", "x = a[b, c]",
    # slices with an empty step
    "x = a[:b:]", "x = a[b:c:]", "x = a[::]", "x = a[b::]", "x = a[::c]", "x = a[:b:c]", "x = a[b:c:d]", "x = a[:]", "x = a[b:]", "x = a[:b]",
    "x = a[b:c, ::d]", "x = a[:b:, c]",
    # trailing commas
    "x = f(a,)", "x = f(a, b,)", "x = f(*a,)", "x = f(k=a,)", "x = [a,]", "x = [a, b,]", "x = {a,}", "x = {a: b,}", "x = (a, b,)",
    "def f(a,):\n    return a", "def f(a, b=1,):\n    return a", "def f(*r, k,):\n    return k",
    # redundant parentheses
    "x = (a)", "x = ((a))", "x = (a + b) * c", "x = a + (b * c)", "x = (a, b)", "x = a[(b)]", "x = a[(b, c)]", "x = a[(b,)]",
    # literal spellings
    "x = 0XFF", "x = 1E3", "x = 1J", "x = 0O17", "x = 0B11", "x = .5", "x = 5.", "x = R'a\\b'", "x = u'a'", "x = B'a'", "x = rb'a'", "x = Rb'a'",
    "x = '''a'''", 'x = """a"""', "x = 'a' if b else 'c'",
    # keywords next to brackets, continuation lines, semicolons, one-line compound statements
    "x = not(a)", "x = a if(b)else c", "x = a\\\n    + b", "x = a;", "x = a; y = b;",
    "if a: x = 1", "while a: x = 1", "for i in y: x = 1", "if a: x = 1\nelse: x = 2", "class K: pass", "def f(): pass",
    # operator adjacency and precedence as written
    "x = a <b", "x = a< b", "x = a<b", "x = a<=b", "x = a<<b", "x = a<b<c", "x = a <b> c", "x = -a ** -b", "x = a ** b ** c", "x = (a ** b) ** c",
    "x = a if b else c if d else e", "x = (a if b else c) if d else e", "x = a or b and c", "x = (a or b) and c", "x = not a == b", "x = (not a) == b",
    "x = a is not b", "x = a not in b", "x = not a in b", "x = *a, b", "x = [*a, *b]", "x = {**a, **b}", "x = f(**a, **b)", "x = f(*a, *b)",
]
