"""Rebuilds the C++ spec reader from /repo's working tree (cached by source hash) and loads it."""
import hashlib
import importlib.machinery
import importlib.util
import os
import subprocess
import sys

from harness.common import REPO, VERIF, Machinery


def source_hash():
    h = hashlib.sha256()
    root = os.path.join(REPO, "src", "fandango", "language", "cpp_parser")
    for d, _dirs, files in sorted(os.walk(root)):
        for f in sorted(files):
            p = os.path.join(d, f)
            h.update(os.path.relpath(p, root).encode())
            h.update(open(p, "rb").read())
    h.update(open(os.path.join(REPO, "CMakeLists.txt"), "rb").read())
    return h.hexdigest()[:20]


def build():
    """-> path of sa_fandango_cpp_parser.so built from the current sources"""
    d = os.path.join(VERIF, ".cache", "cpp", source_hash())
    so = os.path.join(d, "sa_fandango_cpp_parser.so")
    if os.path.exists(so):
        return so
    os.makedirs(d, exist_ok=True)
    cmd = ('cmake -S %s -B %s -G "Unix Makefiles" -DSKBUILD_PROJECT_NAME=fandango_fuzzer -DSKBUILD_PROJECT_VERSION=1.1.1 '
           '-DPython3_EXECUTABLE=/venv/bin/python && make -C %s -j16' % (REPO, d, d))
    p = subprocess.run(cmd, shell=True, stdout=subprocess.PIPE, stderr=subprocess.STDOUT, text=True)
    if p.returncode != 0 or not os.path.exists(so):
        raise Machinery("C++ spec reader cannot be rebuilt:\n" + p.stdout[-1500:])
    # keep only the module (disk space)
    for name in os.listdir(d):
        if name != "sa_fandango_cpp_parser.so":
            path = os.path.join(d, name)
            subprocess.run(["rm", "-rf", path])
    return so


def load():
    """Load the freshly built extension under the name the package imports."""
    so = build()
    name = "fandango.language.parser.sa_fandango_cpp_parser"
    import fandango.language.parser  # noqa: F401  (package must exist before the submodule is registered)
    loader = importlib.machinery.ExtensionFileLoader(name, so)
    spec = importlib.util.spec_from_loader(name, loader)
    mod = importlib.util.module_from_spec(spec)
    loader.exec_module(mod)
    sys.modules[name] = mod
    import fandango.language.parser as pkg
    pkg.sa_fandango_cpp_parser = mod
    return so


if __name__ == "__main__":
    print(build())
