"""C17 - fixed seeds reproduce the same run.

Two fresh processes per configuration (same spec, settings, random seed, PYTHONHASHSEED) record the event stream of
the run - every operator result, every solution as it is emitted, the returned list, and the first parse of a set
of words (ambiguous ones included).  Trace_Lockstep.tla walks the two streams in lock-step and names the first
diverging event.  Level: exploration (the specification contributes the notion of a behaviour and the lock-step
comparison; the deciding evidence are the pairs of real processes).
"""
import json
import os
import random
import subprocess

from harness import common, gen
from harness.common import Report, run_tlc, subdir, repo_env, pmap, VERIF, PY

PROP = "C17"

AMBIG = ('<start> ::= <digit>+ | <hex>+ | <alnum>* | (<digit> <hex>)+ | <x>{1,4}\n<digit> ::= "0" | "1"\n<hex> ::= "0" | "1" | "a"\n'
         '<alnum> ::= "0" | "a" | "z"\n<x> ::= "1" | "a" | "1a"\n')


def _pair(args):
    cfg, job = args
    d = subdir("c17")
    jp = os.path.join(d, "job%d.json" % cfg)
    json.dump(job, open(jp, "w"))
    outs = []
    for run in "AB":
        op = os.path.join(d, "out%d%s.ndjson" % (cfg, run))
        try:
            subprocess.run([PY, "-m", "harness.detrun", jp, op], env=repo_env(), cwd=VERIF, timeout=600,
                           stdout=subprocess.DEVNULL, stderr=subprocess.DEVNULL)
            outs.append([json.loads(l) for l in open(op)])
        except Exception as e:  # noqa
            outs.append([{"k": "harness-timeout", "d": run}])
    return cfg, outs


def configurations(seed, n):
    from harness.checks.c16 import LIB, GRAMMAR, CONS
    from harness.checks.c11 import QUANT_SPECS
    rnd = random.Random(seed)
    jobs = []
    for k in range(n):
        r = k % 5
        s = 0 if k % 7 == 0 else seed + k          # random_seed = 0 is a legal seed
        settings = {"desired_solutions": rnd.choice([4, 8]), "max_generations": rnd.choice([4, 8]), "population_size": rnd.choice([6, 12])}
        if r == 0:
            g = gen.rand_grammar(rnd, classes=gen.SMALL_CLASSES)
            spec = gen.render(g, gen.rand_constraints(rnd, g))
            steps = [{"op": "fuzz", "spec": spec, "seed": s, "settings": settings}]
        elif r == 1:
            spec = LIB + GRAMMAR + "\n".join(rnd.choice(CONS)) + "\n"
            steps = [{"op": "fuzz", "spec": spec, "seed": s, "settings": dict(settings, max_nodes=60)}]
        elif r == 2:
            spec = rnd.choice(QUANT_SPECS)
            steps = [{"op": "fuzz", "spec": spec, "seed": s, "settings": settings}]
        elif r == 3:
            words = ["".join(rnd.choice("01a") for _ in range(rnd.randint(1, 4))) for _ in range(10)]
            steps = [{"op": "parse", "spec": AMBIG, "words": words},
                     {"op": "fuzz", "spec": AMBIG + 'where len(str(<start>)) > 1\n', "seed": s, "settings": dict(settings, initial_population=words[:3]) if False else settings}]
        else:
            g = gen.rand_grammar(rnd, flavour="text", computed=rnd.choice([1, 2, 3]), classes=gen.SMALL_CLASSES)
            spec = gen.render(g, gen.rand_constraints(rnd, g))
            steps = [{"op": "fuzz", "spec": spec, "seed": s, "settings": settings}]
        jobs.append((k + 1, {"steps": steps, "record_from": 0}))
    return jobs


def lockstep(rep, results, describe):
    """results: list of (cfg, [streamA, streamB]).  Runs Trace_Lockstep; returns number of aligned events."""
    path = os.path.join(subdir("lockstep"), "pairs_%s.ndjson" % rep.prop)
    n = 0
    with open(path, "w") as fh:
        for cfg, (a, b) in results:
            for i in range(max(len(a), len(b))):
                ea = a[i] if i < len(a) else {"k": "-", "d": ""}
                eb = b[i] if i < len(b) else {"k": "-", "d": ""}
                fh.write(json.dumps({"cfg": cfg, "i": i, "ak": ea["k"], "ad": ea["d"], "bk": eb["k"], "bd": eb["d"]}) + "\n")
                n += 1
    r = run_tlc("Trace_Lockstep", "Trace_Lockstep", workers=1, env={"TRACE_FILE": path}, timeout=1800)
    rep.tlc(r, "Trace_Lockstep")
    cl = [l for l in r.out.splitlines() if l.startswith('<<"CONSUMED"')]
    if not cl or ("%d," % n) not in cl[0]:
        raise common.Machinery("Trace_Lockstep did not consume the streams: %s" % cl)
    bad = r.printed("BAD")
    for b in (bad[0] if bad else []):
        key, what, replay = describe(b)
        rep.violation(key, what, replay)
    return n


def run(tier, seed):
    rep = Report(PROP, tier, seed, "exploration")
    n = 32 if tier == "quick" else 800
    jobs = configurations(seed, n)
    results = pmap(_pair, jobs, procs=8)
    jobmap = dict(jobs)

    def describe(b):
        job = jobmap[b["cfg"]]
        st = job["steps"][-1]
        return ("config:%d" % b["cfg"],
                "two fresh processes with the same spec, settings, random seed %s and hash seed diverge at event %d (%s vs %s); spec:\n%s"
                % (st.get("seed"), b["at"], b["a"], b["b"], st["spec"][:600]), {"job": job, "divergence": b})
    total = lockstep(rep, results, describe)
    short = [cfg for cfg, (a, b) in results if len(a) < 3]
    if len(short) > n // 3:
        raise common.Machinery("%d of %d runs recorded fewer than 3 events" % (len(short), n))
    distinct = len({json.dumps(a) for _, (a, b) in results})
    rep.add(evaluations=2 * n, distinct_nontrivial=distinct, aligned_events=total,
            rule="one configuration = (spec, settings, random seed, PYTHONHASHSEED=0) run in two fresh processes; non-trivial = "
                 "the recorded stream has >= 3 events; distinct = distinct recorded streams")
    rep.sample({"steps": jobs[0][1]["steps"], "events_in_run_A": results[0][1][0][:5]})
    rep.assumptions += ["PYTHONHASHSEED is fixed (0) for both processes, as the property states", "soft constraints are not used"]
    return rep.finish()


def replay(path):
    d = json.load(open(path))
    print(json.dumps(d, indent=1, default=str)[:4000])
    return 0
