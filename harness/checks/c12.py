"""C12 - parse results do not depend on earlier parse calls.

1. TLC model-checks ParserCache.tla: the "spec" discipline satisfies HistoryIndependent for every
   history up to the bound; the implementation-shaped discipline is run as a sanity config (must fail).
2. spec -> code: TLC prints every request history up to the bound; each is replayed on ONE real
   grammar object (several scenarios instantiate the abstract keys), every result is compared with
   the result of the same request on a FRESH object; handed-out trees are edited by `mut` steps.
3. fuzz-internal parses: a search run (generators / equality repairs parse internally) followed by
   parse requests, compared with a fresh object.
"""
import json
import random

from harness import common
from harness.common import Report, run_tlc
from harness.fan import make, normalise, quiet, struct_key

PROP = "C12"

SCENARIOS = [
    {"name": "text-ambiguous",
     "spec": '<start> ::= <a> | <b> | <c>{1,3}\n<a> ::= "x" | "x" "y"\n<b> ::= <d> <d>?\n<d> ::= "x" | "y"\n<c> ::= "x" | "y" | "xy"\n',
     "keys": {"amb": ("xy", "<start>", False), "one": ("yyy", "<start>", False)}},
    {"name": "other-start-and-prefix",
     "spec": '<start> ::= <a> | <b> | <c>{1,3}\n<a> ::= "x" | "x" "y"\n<b> ::= <d> <d>?\n<d> ::= "x" | "y"\n<c> ::= "x" | "y" | "xy"\n',
     "keys": {"amb": ("x", "<start>", True), "one": ("x", "<d>", False)}},
    {"name": "same-word-two-modes",
     "spec": '<start> ::= <item>+ ";"\n<item> ::= "a" | "b" | "ab"\n',
     "keys": {"amb": ("ab", "<start>", True), "one": ("ab", "<start>", False)}},
    {"name": "bytes",
     "spec": '<start> ::= <p> <q>\n<p> ::= b"\\x01" | b"\\x01" b"\\x02" | <r>\n<r> ::= b"\\x01"\n<q> ::= b"\\x02"? b"\\x03"\n',
     "keys": {"amb": (b"\x01\x03", "<start>", False), "one": (b"\x01\x02\x03", "<start>", False)}},
    {"name": "repetitions",
     "spec": '<start> ::= <e>+ ";"\n<e> ::= <f> | <g>\n<f> ::= "a" | "aa"\n<g> ::= "a"\n',
     "keys": {"amb": ("aa;", "<start>", False), "one": ("a", "<f>", False)}},
]


def do_request(fan, key, kind, cf):
    from fandango.language.grammar import ParsingMode
    word, start, prefix = key
    mode = ParsingMode.INCOMPLETE if prefix else ParsingMode.COMPLETE
    gen = fan.grammar.parse_forest(word, start, mode=mode, include_controlflow=cf)
    out = []
    if kind == "all":
        out = list(gen)
    else:
        n = 1 if kind == "first" else 2
        for t in gen:
            out.append(t)
            if len(out) == n:
                break
        gen.close()
    return out


def mutate(trees):
    from fandango.language.symbols import NonTerminal, Terminal
    from fandango.language.tree import DerivationTree
    for t in trees:
        try:
            # edit at the bottom and at the top
            leaves = [n for n in t.flatten() if n.symbol.is_terminal]
            if leaves and leaves[0].parent is not None:
                leaves[0].parent.set_children([DerivationTree(Terminal("MUTATED"))])
            t.add_child(DerivationTree(NonTerminal("<mutated>")))
        except Exception:
            pass


def _replay_chunk(args):
    hists, scenarios = args
    quiet()
    n_req = 0
    viol = []
    for sc in scenarios:
        fresh_cache = {}

        def fresh(k, kind, cf):
            if (k, kind, cf) not in fresh_cache:
                f = make(sc["spec"])
                fresh_cache[(k, kind, cf)] = [struct_key(t) for t in do_request(f, sc["keys"][k], kind, cf)]
            return fresh_cache[(k, kind, cf)]

        for h in hists:
            normalise(0)
            f = make(sc["spec"])
            handed = []
            for i, st in enumerate(h):
                if st["op"] == "mut":
                    mutate(handed)
                    handed = []
                    continue
                got = do_request(f, sc["keys"][st["k"]], st["kind"], st["cf"])
                n_req += 1
                gk = [struct_key(t) for t in got]
                handed.extend(got)
                exp = fresh(st["k"], st["kind"], st["cf"])
                if gk != exp:
                    pre = ["%s(%s,%s%s)" % (s["op"], s["k"], s["kind"], ",cf" if s["cf"] else "") if s["op"] == "req" else "mut"
                           for s in h[:i + 1]]
                    what = ("wrong trees" if len(gk) == len(exp) else "%d tree(s) instead of %d" % (len(gk), len(exp)))
                    key = "hist:%s:%s" % (sc["name"], ";".join(pre))
                    viol.append((key, "scenario %s, history %s: last request returned %s compared with a fresh object"
                                 % (sc["name"], " ; ".join(pre), what),
                                 {"kind": "history", "scenario": sc, "history": h[:i + 1]}))
                    break
    return n_req, viol


def replay_histories(rep, hists, scenarios):
    chunks = [(hists[i::16], scenarios) for i in range(16)]
    n = 0
    for n_req, viol in common.pmap(_replay_chunk, chunks):
        n += n_req
        for v in viol:
            rep.violation(*v)
    return n


def fuzz_then_parse(rep, seeds):
    """Internal parses performed by fuzzing (generators, equality repair) must not disturb later requests."""
    quiet()
    spec = ('<start> ::= <k> "=" <v> ";" <w>\n<k> ::= <l>+ := gen_k()\n<l> ::= "a" | "b" | "ab"\n<v> ::= <l>+\n<w> ::= <l>{1,2}\n'
            'where str(<v>) == "ab"\n'
            'import random as _r\ndef gen_k():\n    return _r.choice(["ab", "aab", "ba"])\n')
    words = ["ab=ab;ab", "aab=ab;a", "ba=ab;ab"]
    n = 0
    for s in seeds:
        normalise(s)
        f = make(spec)
        try:
            f.fuzz(desired_solutions=3, max_generations=5, population_size=6, random_seed=s)
        except Exception:
            pass
        for w in words:
            for kind in ("first", "all", "some", "all"):
                got = [struct_key(t) for t in do_request(f, (w, "<start>", False), kind, False)]
                exp = [struct_key(t) for t in do_request(make(spec), (w, "<start>", False), kind, False)]
                n += 1
                if got != exp:
                    rep.violation("fuzz-then-parse:%s:%s" % (w, kind),
                                  "after a search run (seed %d), parse_forest(%r) consumed as %r returned %d tree(s), a fresh object %d"
                                  % (s, w, kind, len(got), len(exp)), {"kind": "fuzz-then-parse", "spec": spec, "seed": s, "word": w})
    return n


def run(tier, seed):
    rep = Report(PROP, tier, seed, "model_checking")
    maxhist = 3 if tier == "quick" else 4
    env = {"MAXHIST": str(maxhist + 1)}
    r = run_tlc("MC_ParserCache", "MC_ParserCache_spec", workers=8, env=env, coverage=True, timeout=900)
    if r.violated:
        raise common.Machinery("ParserCache spec discipline violates %s" % r.violated)
    rep.tlc(r, "MC_ParserCache_spec(hist<=%d)" % (maxhist + 1))
    r = run_tlc("MC_ParserCache", "MC_ParserCache_impl", workers=1, env=env, timeout=300)
    if r.violated != "HistoryIndependent":
        raise common.Machinery("sanity: the implementation-shaped discipline should violate HistoryIndependent")
    rep.add(impl_shaped_model_violates="HistoryIndependent (expected: documents the defect class)")
    r = run_tlc("MC_ParserCache", "MC_ParserCache_emit", workers=1, env={"MAXHIST": str(maxhist)}, timeout=900)
    hists = r.printed("HIST")
    rep.tlc(r, "MC_ParserCache_emit(hist<=%d)" % maxhist)
    if len(hists) < 100:
        raise common.Machinery("only %d histories enumerated" % len(hists))
    scenarios = SCENARIOS if tier == "thorough" else SCENARIOS
    if tier == "quick":
        # all histories on the first scenario, a seeded third on the others
        rnd = random.Random(seed)
        n = replay_histories(rep, hists, scenarios[:1])
        sub = [h for h in hists if rnd.random() < 0.34]
        n += replay_histories(rep, sub, scenarios[1:])
        nh = len(hists) + len(sub) * (len(scenarios) - 1)
    else:
        n = replay_histories(rep, hists, scenarios)
        nh = len(hists) * len(scenarios)
    n += fuzz_then_parse(rep, [seed, seed + 1] if tier == "quick" else list(range(seed, seed + 10)))
    rep.add(traces_validated_against_impl=nh, requests_replayed=n, histories=len(hists), exhaustive=True,
            rule="every history of <= %d steps over {first,some,all} x {amb,one} x {control flow on/off} + mut, "
                 "replayed on one real grammar object per history and scenario" % maxhist)
    rep.sample({"history": hists[len(hists) // 2], "scenario": SCENARIOS[0]["name"]})
    rep.assumptions.append("a fresh object built from the same spec text is the reference for every request")
    return rep.finish()


def replay(path):
    d = json.load(open(path))
    print(json.dumps(d, indent=1, default=str))
    return 0
