"""C19 - protocol forecasting offers exactly the grammar's continuations.

spec -> code, lock-step walk: Protocol.tla (the derivation machine over the message alphabet) is explored by TLC
for each protocol grammar of a seeded family (alternatives with shared prefixes, options, bounded and open
repetitions of sequences - with the cap lowered so that "after the last allowed repetition" is reached -, nested
sessions, two or three parties); every reachable state prints its history and completeness.  The harness derives
NextMsgs / Complete from that and walks the real PacketForecaster depth-first: at every history it holds a real
history tree (built by mounting a real message at the forecast path, the way IoPopulationManager does), calls
predict() and compares the offered (sender, recipient, message type) set and the completeness flag.
"""
import collections
import json
import os
import random
import re

from harness import common, gen
from harness.common import Report, run_tlc, subdir, pmap
from harness.parsepipe import with_timeout, Timeout

PROP = "C19"
CAP = 10    # above the explored depth: the process-wide cap on open-ended repetitions (a generation limit) never binds

PARTIES = '''
class A(FandangoParty):
    def __init__(self):
        super().__init__(connection_mode=ConnectionMode.OPEN)
class B(FandangoParty):
    def __init__(self):
        super().__init__(connection_mode=ConnectionMode.EXTERNAL)
class C(FandangoParty):
    def __init__(self):
        super().__init__(connection_mode=ConnectionMode.EXTERNAL)
'''


def msg(snd, rcp, typ):
    return {"k": "msg", "xs": [], "s": "<%s>" % typ, "lo": 0, "hi": 0, "ref": "", "kind": "", "v": [], "items": [], "snd": snd, "rcp": rcp}


def render_node(n, top=False):
    if n["k"] == "msg":
        return "<%s:%s:%s>" % (n["snd"], n["rcp"], n["s"][1:-1]) if n["rcp"] else "<%s:%s>" % (n["snd"], n["s"][1:-1])
    if n["k"] == "alt":
        s = " | ".join(render_node(x) for x in n["xs"])
        return s if top else "(" + s + ")"
    if n["k"] == "cat":
        s = " ".join(render_node(x) for x in n["xs"])
        return s if top else "(" + s + ")"
    if n["k"] == "rep":
        body = render_node(n["xs"][0])
        if n["xs"][0]["k"] == "rep":
            body = "(" + body + ")"
        return body + (gen._quant(n["lo"], n["hi"]) or "{1}")
    if n["k"] == "nt":
        return n["s"]
    raise ValueError(n["k"])


def render(g):
    lines = ["%s ::= %s" % (s, render_node(n, top=True)) for s, n in g["rules"].items()]
    for t in g["types"]:
        lines.append('<%s> ::= "%s;"' % (t, t))
    return "\n".join(lines) + "\n"


def assign_ids(g):
    ids = {}

    def walk(n):
        if n["k"] == "msg":
            key = (n["snd"], n["rcp"], n["s"])
            n["v"] = [ids.setdefault(key, len(ids) + 1)]
        for x in n["xs"]:
            walk(x)
    for r in g["rules"].values():
        walk(r)
    g["ids"] = ids
    return g


def nonempty(n, rules, seen=frozenset()):
    """can the node derive the empty interaction?"""
    return not gen.nullable(_as_lit(n), {k: _as_lit(v) for k, v in rules.items()})


def _as_lit(n):
    m = dict(n)
    if m["k"] == "msg":
        m = dict(m, k="lit", v=[1])
    m["xs"] = [_as_lit(x) for x in n["xs"]]
    return m


def slice_in_family(g, keep):
    """The slice of a protocol to the messages sent by `keep` (as Protocol.tla SlicedRules computes it) must itself belong
    to the family: no empty interaction, no body that can be empty or start with an optional element under * / +."""
    keep = set(keep)

    def sl(n, dead):
        if n["k"] == "msg":
            return n if n["snd"] in keep else None
        if n["k"] == "nt":
            return None if n["s"] in dead else n
        if n["k"] == "rep":
            b = sl(n["xs"][0], dead)
            return None if b is None else dict(n, xs=[b])
        xs = [y for y in (sl(x, dead) for x in n["xs"]) if y is not None]
        return dict(n, xs=xs) if xs else None
    dead = set()
    for _ in range(10):
        d2 = {s for s, r in g["rules"].items() if sl(r, dead) is None}
        if d2 == dead:
            break
        dead = d2
    if g["start"] in dead:
        return False
    rules = {s: _as_lit(sl(r, dead)) for s, r in g["rules"].items() if s not in dead}
    return all(gen.in_family(n, rules) for n in rules.values()) and not gen.nullable(rules[g["start"]], rules)


def rand_protocol(rnd, three_parties=False):
    """A random protocol grammar of the family (no empty interaction; no optional first element under * / +)."""
    parties = ["A", "B", "C"] if three_parties else ["A", "B"]
    types = []
    addr = {}

    def fresh(snd=None):
        if types and rnd.random() < 0.3:
            t = rnd.choice(types)      # a message type used again, possibly travelling the other way
        else:
            t = "m%d" % (len(types) + 1)
            types.append(t)
        # the fuzzer-side party A takes part in every message: a message between two external parties is invisible to it
        snd = snd or rnd.choice(parties)
        rcp = rnd.choice([p for p in parties if p != snd]) if snd == "A" else "A"
        # one recipient per (sender, type): the forecast is keyed by sender and type, so two options that differ in the
        # recipient only collapse into one (recorded finding F40, replayed as a pinned witness)
        rcp = addr.setdefault((snd, t), rcp)
        return msg(snd, rcp, t)

    helpers = []

    def node(depth):
        r = rnd.random()
        if helpers and rnd.random() < 0.25:
            return gen.nt(rnd.choice(helpers))      # a helper rule (a named exchange) used at several places
        if depth <= 0 or r < 0.3:
            return fresh()
        if r < 0.5:
            return gen.alt(*[node(depth - 1) for _ in range(rnd.randint(2, 3))])
        if r < 0.78:
            return gen.cat(*[node(depth - 1) for _ in range(rnd.randint(2, 3))])
        lo, hi = rnd.choice([(0, 1), (0, 2), (1, 2), (0, gen.INF), (1, gen.INF), (2, 2), (0, 1)])
        return gen.rep(node(depth - 1), lo, hi)
    for _ in range(300):
        types.clear()
        addr.clear()
        del helpers[:]
        hrules = {}
        if rnd.random() < 0.5:
            # non-empty helper rules, defined before they are used (no recursion)
            hrules["<h1>"] = rnd.choice([gen.cat(fresh(), fresh()), fresh(), gen.cat(fresh(), gen.rep(fresh(), 0, 1)), gen.alt(fresh(), gen.cat(fresh(), fresh()))])
            helpers.append("<h1>")
            if rnd.random() < 0.4:
                hrules["<h2>"] = gen.cat(node(0), node(1))
                helpers.append("<h2>")
        rules = {"<start>": gen.cat(fresh("A"), node(2), node(1))}
        rules.update(hrules)
        if rnd.random() < 0.5:
            rules["<sess>"] = gen.cat(fresh(), gen.rep(node(1), 0, 2), fresh())
            rules["<start>"] = gen.cat(rules["<start>"], gen.rep(gen.nt("<sess>"), 0, 2))
        g = {"start": "<start>", "rules": rules, "types": list(types)}
        lit = {k: _as_lit(v) for k, v in rules.items()}
        if all(gen.in_family(n, lit) for n in lit.values()) and not gen.nullable(lit["<start>"], lit):
            return assign_ids(g)
    raise RuntimeError("no protocol grammar")


FIXED = [
    ("ping-pong-bye", lambda: {"<start>": gen.cat(msg("A", "B", "ping"), gen.rep(gen.cat(msg("B", "A", "pong"), msg("A", "B", "ping")), 0, 2),
                                                   gen.rep(msg("B", "A", "bye"), 0, 1))}, ["ping", "pong", "bye"]),
    ("alts-shared-prefix", lambda: {"<start>": gen.alt(gen.cat(msg("A", "B", "a"), msg("B", "A", "b")), gen.cat(msg("A", "B", "a"), msg("B", "A", "c")),
                                                        msg("A", "B", "d"))}, ["a", "b", "c", "d"]),
    ("star-of-sequence", lambda: {"<start>": gen.cat(gen.rep(gen.cat(gen.rep(msg("A", "B", "a"), 2, 2), msg("B", "A", "b")), 0, gen.INF),
                                                      gen.rep(gen.cat(msg("A", "B", "a"), msg("B", "A", "c")), 0, 1), msg("A", "B", "z"))}, ["a", "b", "c", "z"]),
    ("option-chain", lambda: {"<start>": gen.cat(gen.rep(msg("A", "B", "a"), 0, 1), gen.rep(msg("B", "A", "b"), 0, 1), gen.rep(msg("A", "B", "c"), 0, 1),
                                                  msg("B", "A", "d"))}, ["a", "b", "c", "d"]),
]


def _walk(args):
    """worker: lock-step walk of one protocol; returns (histories checked, violations)"""
    import fandango.language.grammar.nodes as nodes
    from fandango.io.navigation.packetforecaster import PacketForecaster
    from fandango.language.symbols import NonTerminal
    from fandango.language.tree import DerivationTree
    from harness.fan import make, quiet
    spec, ids, nxt, complete, maxd = args[:5]
    keep = args[5] if len(args) > 5 else None
    quiet()
    nodes.MAX_REPETITIONS = CAP
    if keep:
        # the spec sliced to a subset of parties, as `fandango ... --party` does
        from fandango.language.parse.parse import parse as parse_spec
        g, _cons = parse_spec(spec + PARTIES, use_stdlib=False, use_cache=False, parties=list(keep))
        nodes.MAX_REPETITIONS = CAP
    else:
        f = make(spec + PARTIES)
        g = f.grammar
    label = spec if not keep else spec + "# sliced to the parties %s\n" % list(keep)
    inv = {v: k for k, v in ids.items()}
    fc = PacketForecaster(g)
    viol = []
    checked = [0]
    timeouts = [0]

    def options(tree):
        r = with_timeout(lambda: fc.predict(tree), 20.0)
        res = []
        for party, fnt in r.parties_to_packets.items():
            for nt, pkt in fnt.nt_to_packet.items():
                res.append((party, pkt.node.recipient, nt.name(), pkt))
        return r, res

    def mount(pkt):
        mp = sorted(pkt.paths, key=lambda p: repr(p.path))[0]
        tree = g.collapse(mp.tree)
        dummy = DerivationTree(NonTerminal("<hookin>"))
        tree.append(mp.path[1:-1], dummy)
        fp = dummy.parent
        fp.set_children(fp.children[:-1])
        pkt.node.fuzz(fp, g, 20)
        return tree

    def name(h):
        return " ".join("%s>%s:%s" % (inv[i][0], inv[i][1], inv[i][2][1:-1]) for i in h) or "(empty)"

    def walk(tree, h):
        try:
            r, opts = options(tree)
        except Timeout:
            # not a statement about C19 (termination is C06's subject, and highly ambiguous slices are merely slow): the
            # history and what lies behind it are left out and counted
            timeouts[0] += 1
            return
        checked[0] += 1
        got = {}
        for p, rc, nt, pkt in opts:
            got[(p, rc, nt)] = pkt
        exp = {inv[i] for i in nxt.get(h, ())}
        if set(got) != exp:
            extra = sorted("%s>%s:%s" % k for k in set(got) - exp)
            missing = sorted("%s>%s:%s" % k for k in exp - set(got))
            viol.append(("options:%s:%s" % (label, name(h)),
                         "after the history %s of\n%sthe forecaster offers %s%s" % (name(h), label, ("the extra option(s) %s " % extra) if extra else "",
                                                                                 ("and misses %s" % missing) if missing else ""),
                         {"spec": label, "history": name(h), "extra": extra, "missing": missing}))
        if h and (len(r.complete_trees) > 0) != (h in complete):
            viol.append(("complete:%s:%s" % (label, name(h)), "history %s of\n%sis reported %s but is %s" % (
                name(h), label, "complete" if r.complete_trees else "incomplete", "a full interaction" if h in complete else "not a full interaction"),
                {"spec": label, "history": name(h)}))
        if len(h) >= maxd:
            return
        for key, pkt in sorted(got.items()):
            if key not in exp:
                continue        # do not follow options the specification does not allow
            try:
                t2 = mount(pkt)
            except Exception as e:  # noqa
                viol.append(("mount:%s:%s" % (label, name(h)), "mounting %s after %s raised %s" % (key, name(h), type(e).__name__), {"spec": label}))
                continue
            walk(t2, h + (ids[key],))
    walk(DerivationTree(NonTerminal("<start>")), ())
    return checked[0], viol, timeouts[0]


def run(tier, seed):
    rep = Report(PROP, tier, seed, "model_checking")
    rnd = random.Random(seed)
    gs = {}
    for name, mk, types in FIXED:
        gs[len(gs) + 1] = assign_ids({"start": "<start>", "rules": mk(), "types": types})
    n = 60 if tier == "quick" else 2500
    for k in range(n):
        gs[len(gs) + 1] = rand_protocol(rnd, three_parties=(k % 3 == 2))
    # pinned witness F40: after A>C:m1 B>A:m2 the grammar allows A>B:m2 and A>C:m2 (same sender and type, two recipients)
    gs[90001] = dict(assign_ids({"start": "<start>", "types": ["m1", "m2"], "rules": {"<start>": gen.cat(
        msg("A", "C", "m1"), msg("B", "A", "m2"), gen.rep(msg("A", "B", "m2"), 0, 1), msg("A", "C", "m2"))}}), pinned="F40")
    # pinned witness F42: the history A>B:m1 B>A:m2 is a full interaction, but read by type names it is also a prefix of
    # m1 (A>B:)m2 ..., and the only complete derivation the parser delivers is that one
    gs[90002] = dict(assign_ids({"start": "<start>", "types": ["m1", "m2", "m3", "m4", "m5"], "rules": {
        "<start>": gen.cat(gen.cat(msg("A", "B", "m1"), gen.rep(gen.rep(msg("B", "A", "m2"), 1, 2), 0, gen.INF), gen.rep(msg("A", "B", "m2"), 0, 2)),
                           gen.rep(gen.nt("<sess>"), 0, 2)),
        "<sess>": gen.cat(msg("A", "B", "m3"), gen.rep(msg("A", "B", "m4"), 0, 2), msg("A", "B", "m5"))}}), pinned="F42")
    maxd = 5 if tier == "quick" else 7
    # the same protocols sliced to the fuzzer-side party (every third one), gid + 1000
    sliced = {}
    for gid, g in sorted(gs.items()):
        if gid % 3 == 0 and slice_in_family(g, ["A"]):
            sliced[gid + 100000] = dict(g, keep=["A"])
        if gid % 4 == 1 and (g.get("pinned") or slice_in_family(g, ["B"])):
            sliced[gid + 200000] = dict(g, keep=["B"])
    path = os.path.join(subdir("c19"), "protocols.json")
    json.dump([{"gid": gid, "start": g["start"], "rules": g["rules"], "keep": g.get("keep", [])}
               for gid, g in sorted(list(gs.items()) + list(sliced.items()))], open(path, "w"))
    gs = dict(list(gs.items()) + list(sliced.items()))
    r = run_tlc("Protocol", "Protocol", workers=8, env={"GRAMMARS": path, "MAXMSGS": str(maxd + 1), "MAXNODES": "60", "CAP": str(CAP)},
                timeout=3000, heap="12g")
    rep.tlc(r, "Protocol(%d grammars, <= %d messages)" % (len(gs), maxd + 1))
    prefixes = collections.defaultdict(set)
    complete = collections.defaultdict(set)
    pat = re.compile(r'<<"H", (\d+), "(\[.*\])", (TRUE|FALSE)>>$')
    for line in r.out.splitlines():
        m = pat.match(line.strip())
        if m:
            gid = int(m.group(1))
            h = tuple(json.loads(m.group(2)))
            prefixes[gid].add(h)
            if m.group(3) == "TRUE":
                complete[gid].add(h)
    jobs = []
    ambiguous = 0
    for gid, g in sorted(gs.items()):
        if g.get("keep") and not prefixes[gid]:
            continue        # the slice deletes the start symbol: no protocol is left (the model has no initial state for it)
        # type-ambiguous protocols: two viable histories that spell the same sequence of message TYPES with different
        # parties.  The forecaster re-parses the history by type names and its parser does not deliver every derivation
        # (recorded finding F42, pinned below), so such protocols are outside the walked family.
        type_of = {v: k[2] for k, v in g["ids"].items()}
        if not g.get("pinned") and len({tuple(type_of[i] for i in h) for h in prefixes[gid]}) < len(prefixes[gid]):
            ambiguous += 1
            continue
        nxt = collections.defaultdict(set)
        for h in prefixes[gid]:
            if h:
                nxt[h[:-1]].add(h[-1])
        jobs.append((render(g), {k: v for k, v in g["ids"].items()}, dict(nxt), complete[gid], maxd, g.get("keep")))
    total = 0
    ntimeouts = 0
    for job, (cnt, viol, nto) in zip(jobs, pmap(_walk, jobs)):
        total += cnt
        ntimeouts += nto
        if "A:C:m1> <B:A:m2> <A:B:m2>? <A:C:m2>" in job[0]:
            if viol:
                rep.violation("witness:F40:two-recipients", "pinned witness: " + viol[0][1], viol[0][2])
            continue
        if "<A:B:m1> (<B:A:m2>{1,2})* <A:B:m2>{0,2}" in job[0]:
            if viol:
                rep.violation("witness:F42:type-ambiguous-history", "pinned witness: " + viol[0][1], viol[0][2])
            continue
        for v in viol:
            rep.violation(*v)
    if total < 300:
        raise common.Machinery("only %d histories walked" % total)
    rep.add(type_ambiguous_protocols_not_walked=ambiguous, histories_left_out_after_a_forecast_timeout=ntimeouts)
    rep.add(traces_validated_against_impl=total, protocols=len(gs), sliced_protocols=len(sliced), viable_prefixes=sum(len(v) for v in prefixes.values()),
            rule="every viable message history up to depth %d of %d protocol grammars (TLC state graph), walked in lock-step through "
                 "the real PacketForecaster (history trees built by mounting real messages)" % (maxd, len(gs)))
    rep.sample({"protocol": jobs[0][0], "next_after_empty": sorted(jobs[0][2].get((), []))})
    rep.assumptions += ["the empty history is not asserted to be (in)complete (the code special-cases it); protocols have no empty interaction",
                        "repetition bodies that start with an optional element are excluded (prefix-mode non-termination, finding F17)",
                        "open-ended repetitions are unrolled up to %d iterations on both sides, more than any explored history contains" % CAP]
    return rep.finish()


def replay(path):
    d = json.load(open(path))
    print(json.dumps(d, indent=1, default=str)[:4000])
    return 0
