"""C20 - a protocol run is always a valid, correctly attributed interaction.

1. TLC model-checks ProtocolRun.tla (run loop + environment: per-connection FIFO channels, arbitrary arrival
   interleaving, peer faults): NoSpuriousError, ExactlyOnceInOrder, BadRemoteEndsRun, Terminates and
   BadRemoteLeadsToError (fairness) hold for two external senders and for every fault; with one sender addressing
   two fuzzer-side recipients the sender-only fragment filter of the pinned commit violates NoSpuriousError
   (sanity config = recorded finding F20), the (sender, recipient) filter satisfies everything.
2. spec -> code for the environment: TLC enumerates arrival schedules (Arrivals.tla) and the fault set; the real
   loop (Fandango.fuzz in IO mode) is run in-process, single-threaded, under a virtual clock; scripted external
   parties deliver their units exactly at the scheduling points (every sleep, every access to the receive buffer).
3. code -> spec: send / deliver / end events of every run are validated by Trace_Run.tla: the recorded interaction is
   a prefix of an interaction of the protocol (complete if the run ended normally), every message text lies in the
   constrained message language, sent messages are recorded exactly once in order, received data is attributed to
   its (sender, recipient) exactly once and in order, valid peers never cause an error, invalid ones always do.
"""
import json
import os
import random

from harness import common
from harness.common import Report, run_tlc, subdir, pmap

PROP = "C20"

PARTY = '''
class %s(FandangoParty):
    def __init__(self):
        super().__init__(connection_mode=ConnectionMode.%s)
    def send(self, message, recipient):
        EVENTS.append(("send", self.party_name, recipient, str(message)))
    def start(self): pass
    def stop(self): pass
'''

PROTOCOLS = {
    "two-senders": {
        "spec": '<start> ::= <F:X:go> <X:F:a> <Y:F:b> <F:X:end>\n<go> ::= "go"\n<a> ::= "a" <d> "a"\n<b> ::= "bb"\n<d> ::= "1" | "2"\n<end> ::= "end"\nwhere int(<d>) == 1\nEVENTS = []\n',
        "parties": {"F": "OPEN", "X": "EXTERNAL", "Y": "EXTERNAL"},
        "inter": [[["F", "X", "<go>"], ["X", "F", "<a>"], ["Y", "F", "<b>"], ["F", "X", "<end>"]]],
        "lang": {"<go>": ["go"], "<a>": ["a1a"], "<b>": ["bb"], "<end>": ["end"]},
        "streams": {1: ("X", "F", "a1a"), 2: ("Y", "F", "bb")},
        "faults": {"violating": {1: "a2a"}, "wrong": {1: "bb"}, "truncated": {1: "a1"}, "silent": {1: ""}, "wrong2": {2: "xx"}, "truncated2": {2: "b"}},
    },
    "either-may-speak": {
        # after <welcome> both sides may speak: the fuzzer may send <cmd> (the peer then notifies) or the peer notifies first
        "spec": '<start> ::= <F:X:hello> <X:F:welcome> (<F:X:cmd> <X:F:notify> | <X:F:notify> <F:X:ack>)\n<hello> ::= "hello"\n<welcome> ::= "welcome"\n'
                '<cmd> ::= "cmd" <d>\n<d> ::= "1" | "2" | "3"\n<notify> ::= "note"\n<ack> ::= "ack"\nwhere int(<d>) >= 2\nEVENTS = []\n',
        "parties": {"F": "OPEN", "X": "EXTERNAL"},
        "inter": [[["F", "X", "<hello>"], ["X", "F", "<welcome>"], ["F", "X", "<cmd>"], ["X", "F", "<notify>"]],
                  [["F", "X", "<hello>"], ["X", "F", "<welcome>"], ["X", "F", "<notify>"], ["F", "X", "<ack>"]]],
        "lang": {"<hello>": ["hello"], "<welcome>": ["welcome"], "<cmd>": ["cmd2", "cmd3"], "<notify>": ["note"], "<ack>": ["ack"]},
        "streams": {1: ("X", "F", "welcome"), 2: ("X", "F", "note")},
        "triggers": {1: ("send", "hello"), 2: ("drained", 1)},
        "schedule_from": ("drained", 1),      # the schedule's decisions apply to the race after <welcome> has arrived
        "faults": {"wrong": {2: "nope"}, "truncated": {2: "no"}},
    },
    "ping-pong": {
        "spec": '<start> ::= <F:X:ping> <X:F:pong> (<F:X:ping> <X:F:pong>)? <F:X:bye>\n<ping> ::= "ping"\n<pong> ::= "po" <d> "ng"\n<d> ::= "1" | "2"\n<bye> ::= "bye"\nwhere forall <p> in <pong>: int(<p>.<d>) == 1\nEVENTS = []\n',
        "parties": {"F": "OPEN", "X": "EXTERNAL"},
        "inter": [[["F", "X", "<ping>"], ["X", "F", "<pong>"], ["F", "X", "<bye>"]],
                  [["F", "X", "<ping>"], ["X", "F", "<pong>"], ["F", "X", "<ping>"], ["X", "F", "<pong>"], ["F", "X", "<bye>"]]],
        "lang": {"<ping>": ["ping"], "<pong>": ["po1ng"], "<bye>": ["bye"]},
        "streams": {1: ("X", "F", "po1ng")},
        "faults": {"violating": {1: "po2ng"}, "wrong": {1: "bye"}, "truncated": {1: "po1"}, "silent": {1: ""}},
        "reply_to": "ping",
    },
}
TWO_RECIPIENTS = {
    "spec": '<start> ::= <F:X:go> <X:F:a> <X:G:b> <G:X:end>\n<go> ::= "go"\n<a> ::= "a" <d> "a"\n<b> ::= "bb"\n<d> ::= "1" | "2"\n<end> ::= "end"\nwhere int(<d>) == 1\nEVENTS = []\n',
    "parties": {"F": "OPEN", "X": "EXTERNAL", "G": "OPEN"},
    "inter": [[["F", "X", "<go>"], ["X", "F", "<a>"], ["X", "G", "<b>"], ["G", "X", "<end>"]]],
    "lang": {"<go>": ["go"], "<a>": ["a1a"], "<b>": ["bb"], "<end>": ["end"]},
    "streams": {1: ("X", "F", "a1a"), 2: ("X", "G", "bb")},
    "faults": {},
}


class VClock:
    def __init__(self):
        self.now = 0.0
        self.hook = None

    def time(self):
        return self.now

    def sleep(self, d):
        self.now += d
        if self.hook:
            self.hook("sleep")


def one_run(proto, sched, fault, seed=1, after_construct=None):
    """One deterministic run of the real loop. Returns the event list for Trace_Run."""
    import fandango.evolution.algorithm as alg
    import fandango.io.packetparser as pp
    from fandango.language.grammar import FuzzingMode
    from harness.fan import make, normalise
    normalise(seed)
    clock = VClock()
    old = (alg.time, pp.time)
    alg.time = clock
    pp.time = clock
    try:
        spec = proto["spec"] + "".join(PARTY % (p, mode) for p, mode in proto["parties"].items())
        f = make(spec)
        if after_construct is not None:
            after_construct()
        env = f.grammar._global_variables
        EV = env["EVENTS"]
        io_ = env["FandangoIO"].instance()
        streams = {}
        for sid, (snd, rcp, text) in proto["streams"].items():
            text = proto["faults"].get(fault, {}).get(sid, text) if fault else text
            streams[sid] = {"snd": snd, "rcp": rcp, "units": list(text)}
        events = []
        di = [0]
        started = [False]
        reply_to = proto.get("reply_to")
        triggers = proto.get("triggers", {})
        armed = {sid: (reply_to is None and sid not in triggers) for sid in streams}
        seen_sends = [0]
        gate = [False]

        def deliver(sid):
            st = streams[sid]
            if st["units"] and armed[sid]:
                u = st["units"].pop(0)
                events.append({"ev": "deliver", "snd": st["snd"], "rcp": st["rcp"], "unit": [ord(c) for c in u]})
                io_.parties[st["rcp"]].receive(u, st["snd"])

        def hook(kind):
            sends = [e for e in EV if e[0] == "send"]
            if not sends:
                return
            # a peer that answers requests re-arms its stream for every request it sees
            for sid, trg in triggers.items():
                if trg[0] == "drained" and not streams[trg[1]]["units"] and armed[trg[1]]:
                    armed[sid] = True
            while seen_sends[0] < len(sends):
                s = sends[seen_sends[0]]
                seen_sends[0] += 1
                for sid, trg in triggers.items():
                    if trg[0] == "send" and s[3] == trg[1]:
                        armed[sid] = True
                if reply_to is not None and s[3] == reply_to:
                    for sid, (snd, rcp, text) in proto["streams"].items():
                        if not streams[sid]["units"]:
                            t = proto["faults"].get(fault, {}).get(sid, text) if fault else text
                            streams[sid]["units"] = list(t)
                        armed[sid] = True
            sf = proto.get("schedule_from")
            if sf is not None and not gate[0]:
                if streams[sf[1]]["units"] or not armed[sf[1]]:
                    deliver(sf[1])      # fast-forward: the prologue is delivered unit by unit at every scheduling point
                    return
                if kind != "rm":
                    return              # the prologue message is still being parsed
                gate[0] = True          # back in the main loop: from here on the schedule decides
            if di[0] < len(sched):
                c = sched[di[0]]
                di[0] += 1
                if c in streams:
                    deliver(c)
            elif kind == "sleep":
                for sid in sorted(streams):
                    if streams[sid]["units"] and armed[sid]:
                        deliver(sid)
                        break
        clock.hook = hook
        orig_rm, orig_grm, orig_clear = io_.received_msg, io_.get_received_msgs, io_.clear_by_party

        def rm():
            hook("rm")
            return orig_rm()

        def grm():
            hook("access")
            return orig_grm()
        io_.received_msg, io_.get_received_msgs = rm, grm
        kind, hist, exc = "ok", [], None
        try:
            res = f.fuzz(mode=FuzzingMode.IO, population_size=1, random_seed=seed)
            msgs = res[0].protocol_msgs() if res else []
            if not res:
                kind = "error"
        except BaseException as e:  # noqa
            kind, exc, msgs = "error", type(e).__name__, []
            fs = getattr(f, "fandango", None)
        hist = [{"snd": m.sender, "rcp": m.recipient or "", "type": m.msg.symbol.format_as_spec(), "text": [ord(c) for c in str(m.msg)]} for m in msgs]
        sends = [{"ev": "send", "snd": e[1], "rcp": e[2] or "", "text": [ord(c) for c in e[3]]} for e in EV if e[0] == "send"]
        complete = any([[m["snd"], m["rcp"], m["type"]] for m in hist] == w for w in proto["inter"])
        if kind == "ok" and not complete:
            kind = "error"      # the loop logged a failure and handed back the history so far
        left = any(st["units"] for sid, st in streams.items() if armed[sid])
        # interleave sends and deliveries in the order they happened is not needed by the trace spec: it keeps two sequences
        return {"events": sends + events, "kind": kind, "exc": exc, "hist": hist,
                "peers_valid": not fault, "all_delivered": not left}
    finally:
        alg.time, pp.time = old


def _runs(args):
    from harness.fan import quiet
    name, proto, jobs = args
    quiet()
    out = []
    for sched, fault in jobs:
        try:
            out.append((sched, fault, one_run(proto, sched, fault)))
        except Exception as e:  # noqa
            out.append((sched, fault, {"harness_error": "%s: %s" % (type(e).__name__, e)}))
    return name, out


def run(tier, seed):
    rep = Report(PROP, tier, seed, "model_checking")
    expect = {"tworcp_spec": None, "twosnd_impl": None, "twosnd_wrong": None, "twosnd_truncated": None, "twosnd_silent": None,
              "twosnd_wrong3": None, "twosnd_truncated3": None, "twosnd_silent3": None, "tworcp_impl": "NoSpuriousError"}
    for cfg, want in expect.items():
        r = run_tlc("MC_ProtocolRun", "MC_ProtocolRun_" + cfg, workers=2, timeout=600)
        if r.violated != want:
            raise common.Machinery("ProtocolRun model %s: expected %s, TLC says %s" % (cfg, want, r.violated))
        if want is None:
            rep.tlc(r, "MC_ProtocolRun_" + cfg)
    rep.add(sender_only_filter_with_two_recipients_violates="NoSpuriousError (finding F20)")
    depth = 5 if tier == "quick" else 7
    r = run_tlc("Arrivals", "Arrivals" if depth == 5 else "Arrivals_deep", workers=1, timeout=600)
    scheds = [json.loads(json.loads('"' + l.strip()[len('<<"SCHED", "'):-3] + '"')) for l in r.out.splitlines() if l.startswith('<<"SCHED"')]
    rep.tlc(r, "Arrivals(D=%d, 2 streams)" % depth)
    if len(scheds) != 3 ** depth:
        raise common.Machinery("expected %d schedules, got %d" % (3 ** depth, len(scheds)))
    rnd = random.Random(seed)
    jobs = []
    for name, proto in PROTOCOLS.items():
        ss = scheds if tier == "thorough" else rnd.sample(scheds, 60)
        if len(proto["streams"]) == 1:
            ss = [s for s in ss if 2 not in s]
        jl = [(s, None) for s in ss]
        for fault in proto["faults"]:
            jl += [(s, fault) for s in (ss[::9] if tier == "thorough" else ss[:8])]
        for k in range(8):
            jobs.append((name, proto, jl[k::8]))
    results = {}
    for name, out in pmap(_runs, jobs, procs=8):
        results.setdefault(name, []).extend(out)
    # pinned witness of F20: one sender, two fuzzer-side recipients, a unit for G arrives before F's message is complete
    _, wit = _runs(("two-recipients", TWO_RECIPIENTS, [([2, 1, 1, 1, 2], None), ([1, 2, 1, 1, 2], None)]))
    results["two-recipients"] = wit
    meta = {}
    tid = 0
    protos = dict(PROTOCOLS, **{"two-recipients": TWO_RECIPIENTS})
    # one event is one state of the trace specification and TLC follows at most 65535 states of a behaviour: the runs are
    # written to several files of at most 30000 events, validated side by side
    files, cur, cur_n = [], [], 0
    for name, out in results.items():
        p = protos[name]
        for sched, fault, res in out:
            if "harness_error" in res:
                raise common.Machinery("run failed in the harness: %s" % res["harness_error"])
            tid += 1
            meta[tid] = (name, sched, fault, res)
            lines = [json.dumps({"ev": "proto", "tid": tid, "inter": p["inter"], "ext": [q for q, m in p["parties"].items() if m == "EXTERNAL"],
                                 "lang": {t: [[ord(c) for c in x] for x in xs] for t, xs in p["lang"].items()}})]
            for e in res["events"]:
                e["tid"] = tid
                lines.append(json.dumps(e))
            lines.append(json.dumps({"ev": "end", "tid": tid, "kind": res["kind"], "hist": res["hist"], "peers_valid": res["peers_valid"],
                                     "all_delivered": res["all_delivered"]}))
            if cur_n + len(lines) > 30000:
                files.append((cur, cur_n))
                cur, cur_n = [], 0
            cur.extend(lines)
            cur_n += len(lines)
    if cur:
        files.append((cur, cur_n))
    from concurrent.futures import ThreadPoolExecutor

    def validate(arg):
        i, (lines, n) = arg
        path = os.path.join(subdir("c20"), "runs.%d.ndjson" % i)
        with open(path, "w") as fh:
            fh.write("\n".join(lines) + "\n")
        return n, run_tlc("Trace_Run", "Trace_Run", workers=1, env={"TRACE_FILE": path}, timeout=1800, heap="4g")
    bad_all = []
    with ThreadPoolExecutor(min(8, len(files))) as ex:
        for n, r in ex.map(validate, enumerate(files)):
            rep.tlc(r, "Trace_Run[%d events]" % n)
            cl = [l for l in r.out.splitlines() if l.startswith('<<"CONSUMED"')]
            if not cl or ("%d," % n) not in cl[0]:
                raise common.Machinery("Trace_Run did not consume the trace: %s" % cl)
            b_ = r.printed("BAD")
            bad_all.extend(b_[0] if b_ else [])
    seen = set()
    for b in bad_all:
        name, sched, fault, res = meta[b["tid"]]
        if name == "two-recipients":
            key = "witness:F20:two-recipients"
        else:
            key = "run:%s:%s:%s:%s" % (name, sched, fault, b["clause"])
        if key in seen:
            continue
        seen.add(key)
        rep.violation(key, "protocol %s, arrival schedule %s, peer behaviour %s: %s (run ended %s%s, recorded %s)"
                      % (name, sched, fault or "valid", b["clause"], res["kind"], " with " + res["exc"] if res["exc"] else "",
                         [(m["snd"], m["rcp"], "".join(map(chr, m["text"]))) for m in res["hist"]]),
                      {"protocol": protos[name]["spec"], "schedule": sched, "fault": fault, "result": {k: v for k, v in res.items() if k != "events"}})
    nruns = tid
    ok_runs = sum(1 for m in meta.values() if m[3]["kind"] == "ok")
    if ok_runs < 50 and not rep.violations:
        raise common.Machinery("only %d runs completed normally (vacuous)" % ok_runs)
    rep.add(traces_validated_against_impl=nruns, runs_completed_ok=ok_runs, runs_ended_with_error=nruns - ok_runs,
            schedules=len(scheds), exhaustive=(tier == "thorough"),
            rule="one run of the real IO loop per (protocol, arrival schedule of length %d over the streams, peer behaviour in " % depth +
                 "{valid, violating, wrong type, truncated, silent}), under a virtual clock")
    rep.sample({"protocol": PROTOCOLS["two-senders"]["spec"], "schedule": scheds[100], "fault": None})
    rep.assumptions += ["threads and sockets are replaced by a deterministic scheduler: races inside the socket parties are out of scope",
                        "scripted peers deliver through the recipient party's receive(data, sender), as the socket parties do",
                        "one external sender addressing two fuzzer-side recipients is replayed only as a pinned witness (finding F20)"]
    return rep.finish()


def replay(path):
    d = json.load(open(path))
    print(json.dumps(d, indent=1, default=str)[:4000])
    return 0
