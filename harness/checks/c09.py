"""C09 - a tree's value is the in-order concatenation of its leaves.

1. TLC model-checks TreeValue.tla: the implementation-shaped value object, folded subtree by subtree and
   queried in every order, agrees with the reference semantics on the generated family (locally aligned
   trees).  Sanity configs: the latin-1 flush of the pinned commit and non-locally-aligned trees must fail.
2. spec -> code: TLC writes the case table (leaf sequence, shape, reference answers); every case is built as
   a real DerivationTree and queried in every order of str/bytes/to_bits/int up to the bound; each answer is
   compared with the reference, with a fresh tree's answer (purity) and the tree must stay unchanged.
3. code -> spec: trees emitted by real fuzzing of binary grammars, judged by the same reference (python port
   is NOT used: the leaves go to TLC, which evaluates Expect).
"""
import itertools
import json
import os
import random

from harness import common
from harness.common import Report, run_tlc, subdir, pmap
from harness.fan import quiet, struct_key

PROP = "C09"
VIEWS = ["str", "bytes", "bits", "int"]


def leaf_str(l):
    if l["k"] == "bit":
        return str(l["v"][0])
    return ("s" if l["k"] == "str" else "b") + "[" + ",".join(map(str, l["v"])) + "]"


def shape_str(t):
    if "leaf" in t:
        return str(t["leaf"])
    return "(" + " ".join(shape_str(c) for c in t["ch"]) + ")"


def case_key(c):
    return "case:" + " ".join(leaf_str(l) for l in c["leaves"]) + " :: " + shape_str(c["shape"])


def build(c):
    from fandango.language.symbols import NonTerminal, Terminal
    from fandango.language.tree import DerivationTree

    def leaf(l):
        if l["k"] == "bit":
            return Terminal(l["v"][0])
        if l["k"] == "bytes":
            return Terminal(bytes(l["v"]))
        return Terminal("".join(chr(x) for x in l["v"]))

    def rec(t, depth):
        if "leaf" in t:
            return DerivationTree(leaf(c["leaves"][t["leaf"] - 1]))
        return DerivationTree(NonTerminal("<n%d>" % depth), [rec(x, depth + 1) for x in t["ch"]])
    return rec(c["shape"], 0)


def view(tree, v):
    """-> ('ok', ints) or ('err', exception class name)"""
    try:
        if v == "str":
            return ("ok", [ord(ch) for ch in str(tree)])
        if v == "bytes":
            return ("ok", list(bytes(tree)))
        if v == "bits":
            return ("ok", [int(ch) for ch in tree.to_bits()])
        return ("ok", [int(tree)])
    except Exception as e:  # noqa
        return ("err", type(e).__name__)


def judge_case(c, orders):
    """Returns list of (key, what, replay)."""
    out = []
    key = case_key(c)
    fresh = {v: view(build(c), v) for v in VIEWS}
    # 1. reference
    for v in VIEWS:
        exp = c["expect"][v]
        if exp["v"] == [-2]:
            continue  # nothing demanded
        got = fresh[v]
        if got != ("ok", exp["v"]):
            out.append((key + " :: " + v, "%s view of leaves [%s] nested as %s is %r, the reference says %r"
                        % (v, " ".join(leaf_str(l) for l in c["leaves"]), shape_str(c["shape"]), got, exp["v"]),
                        {"case": c, "view": v, "got": got}))
    # 2. purity in every request order
    for order in orders:
        t = build(c)
        before = struct_key(t)
        for i, v in enumerate(order):
            got = view(t, v)
            if got != fresh[v]:
                out.append((key + " :: order " + ",".join(order[:i + 1]),
                            "after requesting %s the %s view of leaves [%s] nested as %s changed from %r to %r"
                            % (",".join(order[:i]), v, " ".join(leaf_str(l) for l in c["leaves"]), shape_str(c["shape"]), fresh[v], got),
                            {"case": c, "order": order[:i + 1]}))
                break
        if struct_key(t) != before:
            out.append((key + " :: tree changed by " + ",".join(order), "the tree changed while values were computed", {"case": c, "order": order}))
    return out


def _chunk(args):
    cases, orders = args
    quiet()
    res = []
    n = 0
    for c in cases:
        res.extend(judge_case(c, orders))
        n += len(orders) + 4
    return n, res


PINNED = [
    # F15: a run of bits starts in one subtree and ends in the next one before a text leaf of that subtree
    {"leaves": [{"k": "bit", "v": [0]}, {"k": "bit", "v": [1]}, {"k": "bit", "v": [0]}, {"k": "bit", "v": [0]},
                {"k": "bit", "v": [0]}, {"k": "bit", "v": [0]}, {"k": "bit", "v": [0]}, {"k": "bit", "v": [1]},
                {"k": "str", "v": [97]}],
     "shape": {"ch": [{"ch": [{"leaf": 1}]}, {"ch": [{"leaf": i} for i in range(2, 10)]}]},
     "expect": {"bits": {"ok": True, "v": [0, 1, 0, 0, 0, 0, 0, 1, 0, 1, 1, 0, 0, 0, 0, 1]},
                "bytes": {"ok": True, "v": [65, 97]}, "str": {"ok": True, "v": [65, 97]}, "int": {"ok": True, "v": [-2]}}},
    # F27: an empty text leaf among unaligned bits
    {"leaves": [{"k": "bit", "v": [0]}, {"k": "str", "v": []}],
     "shape": {"ch": [{"leaf": 1}, {"leaf": 2}]},
     "expect": {"bits": {"ok": True, "v": [0]}, "bytes": {"ok": True, "v": [-2]}, "str": {"ok": True, "v": [-2]},
                "int": {"ok": True, "v": [-2]}}},
]


def emitted_trees(rep, seed, nspecs):
    """code -> spec: values of trees produced by real fuzzing of bit/byte grammars, judged by TLC's Expect."""
    from harness.fan import make, normalise, leaf_kind_val
    quiet()
    specs = [
        '<start> ::= <hdr> <body>\n<hdr> ::= <bit>{3} <len>\n<len> ::= <bit>{5}\n<bit> ::= 0 | 1\n<body> ::= <byte>{1,3} "é"?\n<byte> ::= b"\\x80" | b"A" | "z"\n',
        '<start> ::= <f> <g> <t> <h>\n<f> ::= <bit>{4}\n<g> ::= <bit>{4}\n<t> ::= "x" | "€" | b"\\xff"\n<h> ::= (<bit>{8})*\n<bit> ::= 0 | 1\n',
        '<start> ::= <w>+\n<w> ::= "7" | "12"\n',
        '<start> ::= <bit>{1,12}\n<bit> ::= 0 | 1\n',
    ]
    cases = []
    for si, spec in enumerate(specs[:nspecs]):
        normalise(seed + si)
        f = make(spec)
        for t in f.fuzz(desired_solutions=12, max_generations=3, population_size=12, random_seed=seed + si):
            leaves = []

            def walk(n):
                if n.symbol.is_terminal:
                    k, v = leaf_kind_val(n.symbol)
                    leaves.append({"k": {"text": "str", "bytes": "bytes", "bit": "bit"}[k], "v": v})
                    return {"leaf": len(leaves)}
                return {"ch": [walk(c) for c in n.children]}
            shape = walk(t)
            cases.append({"leaves": leaves, "shape": shape, "tree": t, "got": {v: view(t, v) for v in VIEWS}})
    # ask TLC for the reference answers of these leaf sequences
    path = os.path.join(subdir("c09"), "emitted.ndjson")
    with open(path, "w") as fh:
        for c in cases:
            fh.write(json.dumps({"leaves": c["leaves"], "shape": c["shape"]}) + "\n")
    out = os.path.join(subdir("c09"), "emitted_expect.ndjson")
    r = run_tlc("TreeValueJudge", "TreeValueJudge", workers=1, env={"IN": path, "OUT": out, "MAXUNITS": "1"})
    rep.tlc(r, "TreeValueJudge")
    exps = [json.loads(l) for l in open(out)]
    if len(exps) != len(cases):
        raise common.Machinery("TreeValueJudge returned %d answers for %d trees" % (len(exps), len(cases)))
    nontrivial = 0
    skipped = 0
    for c, e in zip(cases, exps):
        if not e["local"]:
            skipped += 1
            continue
        for v in VIEWS:
            exp = e["expect"][v]
            if exp["v"] == [-2]:
                continue
            nontrivial += 1
            if c["got"][v] != ("ok", exp["v"]):
                rep.violation("emitted:" + " ".join(leaf_str(l) for l in c["leaves"]) + "::" + v,
                              "emitted tree: %s view is %r, the reference says %r" % (v, c["got"][v], exp["v"]),
                              {"leaves": c["leaves"], "shape": c["shape"], "view": v})
    rep.add(emitted_trees=len(cases), emitted_views_judged=nontrivial, emitted_outside_family=skipped)
    return len(cases)


def run(tier, seed):
    rep = Report(PROP, tier, seed, "model_checking")
    mu = 2 if tier == "quick" else 3
    env = {"MAXUNITS": str(mu)}
    r = run_tlc("MC_TreeValue", "MC_TreeValue_utf8", workers=8, env=env, coverage=True, timeout=3000, heap="8g")
    if r.violated:
        # the model is implementation-shaped: a violation here with the repaired flush is a modelling problem
        raise common.Machinery("MC_TreeValue_utf8 violates %s" % r.violated)
    rep.tlc(r, "MC_TreeValue_utf8(units<=%d)" % mu)
    for cfg, why in (("MC_TreeValue_latin1", "flush with the decoding name"), ("MC_TreeValue_nonlocal", "fold is not associative across subtrees")):
        r2 = run_tlc("MC_TreeValue", cfg, workers=4, env={"MAXUNITS": "2"}, timeout=900)
        if r2.violated != "ViewsAgree":
            raise common.Machinery("sanity config %s should violate ViewsAgree (%s)" % (cfg, why))
    rep.add(sanity_configs_violate="ViewsAgree (latin-1 flush; non-locally-aligned trees)")
    table = os.path.join(subdir("c09"), "table.ndjson")
    tu = 3
    r = run_tlc("TreeValueTable", "TreeValueTable", workers=1, env={"MAXUNITS": str(tu), "OUT": table}, timeout=3000)
    rep.tlc(r, "TreeValueTable(units<=%d)" % tu)
    cases = [json.loads(l) for l in open(table)]
    asserted = [c for c in cases if c["local"]]
    if len(asserted) < 500:
        raise common.Machinery("case table too small: %d" % len(asserted))
    rnd = random.Random(seed)
    orders3 = [list(o) for n in (1, 2, 3) for o in itertools.product(VIEWS, repeat=n)]
    orders2 = [list(o) for n in (1, 2) for o in itertools.product(VIEWS, repeat=n)]
    small = [c for c in asserted if len(c["leaves"]) <= 10]
    big = [c for c in asserted if len(c["leaves"]) > 10]
    if tier == "quick":
        big = [c for c in big if rnd.random() < 0.25]
    jobs = [(small[i::16], orders3) for i in range(16)] + [(big[i::16], orders2 if tier == "quick" else orders3) for i in range(16)]
    total = 0
    for n, res in pmap(_chunk, jobs):
        total += n
        for v in res:
            rep.violation(*v)
    # pinned witnesses of recorded findings (outside the generated family)
    quiet()
    for c in PINNED:
        for v in judge_case(c, orders2):
            rep.violation(case_key(c), v[1], v[2])
            break
    emitted_trees(rep, seed, 4)
    rep.add(traces_validated_against_impl=len(small) + len(big), view_requests_replayed=total, cases_in_table=len(cases),
            cases_outside_family=len(cases) - len(asserted), exhaustive=(tier == "thorough"),
            rule="all leaf sequences of <= %d units over 10 leaf kinds x all shapes (flat, 2/3 subtrees, deeper nesting) "
                 "x all orders of <= 3 view requests" % tu)
    rep.sample({"case": case_key(asserted[len(asserted) // 2]), "expect": asserted[len(asserted) // 2]["expect"]})
    rep.assumptions += ["nothing is asserted about values of trees with a text/bytes leaf at an unaligned bit position",
                        "int() is pinned only for pure bit strings (binary) and pure digit text (decimal)",
                        "trees that are aligned as a whole but not subtree by subtree are replayed only as pinned witnesses (known findings)"]
    return rep.finish()


def replay(path):
    d = json.load(open(path))
    print(json.dumps(d, indent=1, default=str))
    return 0
