"""C04 - parsing is sound: every yielded tree derives exactly the input.

spec -> code: for each grammar of a seeded family (text, bytes and bit-level) TLC enumerates the language up to a
length bound with the derivation machine (Lang.tla); the harness adds near-misses (single-unit edits, truncations)
whose non-membership is decided by the enumeration.  Every word and near-miss is parsed by the real parser.
code -> spec: every yielded tree goes, with its input, to Trace_Tree.tla: Valid, requested start symbol, yield =
input, no helper symbols.  An input outside the language must yield nothing.
API level: Fandango.parse() must only yield trees that satisfy the constraints (judged by Constraint.tla, see C07).
"""
import json
import random

from harness import common
from harness.common import Report
from harness.parsepipe import build_corpus, parse_corpus, input_event
from harness.treetrace import TreeTrace, ir_shape

PROP = "C04"


def _api_parse(args):
    """worker: Fandango.parse (the public API: grammar + constraints) on each word; -> {word: [tree IR]}"""
    from harness.fan import make, quiet, tree_ir
    from harness.parsepipe import with_timeout, Timeout
    spec, words = args
    quiet()
    try:
        f = make(spec)
    except Exception as e:  # noqa
        return {"__reader__": "%s: %s" % (type(e).__name__, str(e)[:100])}
    out = {}
    for w in words:
        def go():
            ts = []
            for t in f.parse(w):
                ts.append(tree_ir(t))
                if len(ts) >= 5:
                    break
            return ts
        try:
            out[w] = with_timeout(go, 10.0)
        except Timeout:
            f = make(spec)
        except Exception:  # noqa  (raising is a rejection)
            out[w] = []
    return out


def computed_specs():
    """records with a count field: exact form body{int(<len>)} and two-sided form body{1,int(<len>)}, one or two records,
    and a count that follows an optional digit (two readings of the same prefix)"""
    from harness import gen
    L = gen.lit_text
    base = {"<len>": gen.alt(L("1"), L("2"), L("3")), "<item>": gen.alt(L("p"), L("q"))}
    out = []
    for kind, lo in (("", 1), ("upto", 1), ("upto", 0)):
        for body in (gen.nt("<item>"), gen.cat(gen.nt("<item>"), L(","))):
            rec = gen.cat(gen.nt("<len>"), L(":"), gen.rep(body, lo, gen.INF, ref="<len>", kind=kind), L("."))
            for start in (gen.nt("<rec>"), gen.rep(gen.nt("<rec>"), 1, 2), gen.cat(gen.rep(gen.nt("<len>"), 0, 1), gen.nt("<rec>"))):
                out.append({"start": "<start>", "rules": dict(base, **{"<start>": start, "<rec>": rec}), "flavour": "text", "computed": 1})
    return out


def computed_words(g):
    """every record text with count digit 1..3 and 0..4 items (so: too few, exact, too many), alone, doubled, and after a digit"""
    comma = "," if any(x["k"] == "lit" and x["v"] == [44] for r in [g["rules"]["<rec>"]] for y in r["xs"] for x in ([y] + y["xs"] + [z for q in y["xs"] for z in q["xs"]])) else ""
    recs = []
    for n in "123":
        for k in range(0, 5):
            for it in ("p", "q"):
                recs.append(n + ":" + (it + comma) * k + ".")
    words = set(recs)
    for a in recs[::3]:
        for b in recs[::4]:
            words.add(a + b)
        words.add("2" + a)
        words.add("1" + a)
    return sorted(words)


def api_level(rep, tier, seed):
    """Through the public API only trees that satisfy ALL constraints of the spec are yielded - where-clauses and the
    bounds of computed repetitions alike.  (a) generated where-clauses over TLC-enumerated words: every yielded tree is
    judged by Constraint.Sat; (b) computed repetitions: every yielded tree is judged by FanIR.Valid with the counts."""
    import os
    from harness import gen
    from harness.cgen import CGen
    from harness.checks.c07 import grammars
    from harness.common import run_tlc, subdir, pmap
    from harness.langenum import enumerate_languages
    from harness.treetrace import ir_text
    rnd = random.Random(seed + 77)
    gs, lits, nts = grammars()
    enum = enumerate_languages(rep, gs, 6, max_nodes=40, label="Lang(constraint grammars)")
    jobs, plan = [], []
    for k in range(70 if tier == "quick" else 500):
        gid = rnd.choice(sorted(gs))
        cg = CGen(rnd, nts[gid], lits[gid])
        cons = [cg.rphi(1) for _ in range(rnd.randint(1, 2))]
        spec = gen.render(gs[gid], ["where " + c[1] for c in cons])
        words = sorted(w for w in enum[gid].words if isinstance(w, str))
        words = rnd.sample(words, min(len(words), 40))
        jobs.append((spec, words))
        plan.append((spec, cons))
    results = pmap(_api_parse, jobs)
    path = os.path.join(subdir("c04"), "api.ndjson")
    meta = {}
    tid = nrej = 0
    with open(path, "w") as fh:
        for (spec, cons), res in zip(plan, results):
            if "__reader__" in res:
                nrej += 1
                continue
            for w, trees in res.items():
                for t in trees:
                    tid += 1
                    meta[tid] = (spec, [c[1] for c in cons], w, t)
                    fh.write(json.dumps({"ev": "E", "tid": tid, "idx": 0, "phis": [c[0] for c in cons], "tree": t}) + "\n")
    if tid < 40:
        raise common.Machinery("the API yielded only %d trees on the constraint specs (vacuous)" % tid)
    r = run_tlc("Trace_Constraint", "Trace_Constraint", workers=1, env={"TRACE_FILE": path}, timeout=3000, heap="8g")
    rep.tlc(r, "Trace_Constraint(API parse)")
    cl = [l for l in r.out.splitlines() if l.startswith('<<"CONSUMED"')]
    if not cl or ("%d," % tid) not in cl[0]:
        raise common.Machinery("Trace_Constraint did not consume the API trace: %s" % cl)
    bad = r.printed("BAD")
    for b in (bad[0] if bad else []):
        spec, texts, w, t = meta[b["tid"]]
        rep.violation("api:%s:%r:%s" % (spec, w, texts[b["k"] - 1]), "Fandango.parse(%r) with\n%syields a tree that does not satisfy `%s`" % (w, spec, texts[b["k"] - 1]),
                      {"spec": spec, "word": w, "tree": t})
    # (b) computed repetitions
    tt = TreeTrace("c04api")
    cjobs, cplan = [], []
    for i, g in enumerate(computed_specs()):
        words = computed_words(g)
        if tier == "quick":
            words = rnd.sample(words, min(len(words), 60))
        cjobs.append((gen.render(g), words))
        cplan.append((700 + i, g))
    ntrees = nwords = 0
    for (gid, g), res in zip(cplan, pmap(_api_parse, cjobs)):
        if "__reader__" in res:
            raise common.Machinery("computed-repetition spec rejected by the reader: %s\n%s" % (res["__reader__"], gen.render(g)))
        tt.grammar(gid, g)
        tt.new_trace({"spec": gen.render(g), "gid": gid})
        for w, trees in res.items():
            nwords += 1
            for t in trees:
                ntrees += 1
                tt.tree(gid, "<start>", t, repr(w), "text", [ord(c) for c in w])
    if ntrees < 50:
        raise common.Machinery("the API yielded only %d trees on the computed-repetition specs (vacuous)" % ntrees)
    for _tid, _idx, clause, label, ir, info in tt.judge(rep, "Trace_Tree(API parse, computed repetitions)"):
        rep.violation("api-tree:%s:%s:%s" % (info["spec"], label, clause),
                      "Fandango.parse(%s) with\n%syields %s: %s" % (label, info["spec"], ir_shape(ir)[:200], clause),
                      {"spec": info["spec"], "word": label, "tree": ir, "clause": clause})
    rep.add(api_constraint_trees_judged=tid, api_specs_rejected_by_reader=nrej, api_computed_words=nwords, api_computed_trees_judged=ntrees)


def run(tier, seed):
    rep = Report(PROP, tier, seed, "model_checking")
    api_level(rep, tier, seed)
    ng, mu = (40, 5) if tier == "quick" else (600, 6)
    cases = build_corpus(rep, seed, ng, mu)
    parse_corpus(cases)
    tt = TreeTrace("c04")
    n_in = n_out = n_trees = skipped = rejected_specs = 0
    for c in cases:
        if "__reader__" in c["parsed"]:
            rejected_specs += 1
            continue
        tt.grammar(c["gid"], c["g"])
        tt.new_trace({"spec": c["spec"], "gid": c["gid"]})
        inside = set(c["inside"])
        for w, (trees, status) in c["parsed"].items():
            if status == "timeout":
                skipped += 1
                continue
            if w in inside:
                n_in += 1
            else:
                n_out += 1
                if trees:
                    rep.violation("accepts:%s:%r" % (c["spec"], w),
                                  "input %r is outside the language of\n%s(decided by the TLC enumeration up to length %d) but the parser yields %s"
                                  % (w, c["spec"], mu, ir_shape(trees[0])[:200]), {"spec": c["spec"], "word": repr(w), "tree": trees[0]})
            kind, val = input_event(w)
            for t in trees:
                tt.tree(c["gid"], c["g"]["start"], t, repr(w), kind, val)
                n_trees += 1
    if rejected_specs > len(cases) // 5:
        raise common.Machinery("too many rendered specs rejected by the reader (%d)" % rejected_specs)
    if n_trees < 100 or n_out < 100:
        raise common.Machinery("corpus too small: %d trees, %d near-misses" % (n_trees, n_out))
    for tid, idx, clause, label, ir, info in tt.judge(rep):
        rep.violation("tree:%s:%s:%s" % (info["spec"], label, clause),
                      "parsing %s with\n%syielded %s: %s" % (label, info["spec"], ir_shape(ir)[:200], clause),
                      {"spec": info["spec"], "word": label, "tree": ir, "clause": clause})
    rep.add(traces_validated_against_impl=n_in + n_out, words_inside=n_in, near_misses_outside=n_out, trees_judged=n_trees,
            skipped_timeouts=skipped, grammars=len(cases) - rejected_specs, specs_rejected_by_reader=rejected_specs,
            truncated_enumerations=sum(1 for c in cases if c["enum"].truncated),
            rule="seeded grammars (text / bytes / 8-bit fields); all words up to %d units from the TLC derivation machine, "
                 "near-misses by single-unit edit; forest requested when the enumeration has <= 50 derivations of the word" % mu)
    ex = next(c for c in cases if c["inside"] and "__reader__" not in c["parsed"])
    rep.sample({"spec": ex["spec"], "inside": [repr(w) for w in ex["inside"][:5]], "outside": [repr(w) for w in ex["outside"][:5]]})
    rep.assumptions += ["membership of a near-miss is decided by the exhaustive TLC enumeration (cap = bound + 1, no node-bound truncation)",
                        "grammars with empty-deriving bodies under open repetitions are excluded (recorded C06 finding)"]
    return rep.finish()


def replay(path):
    d = json.load(open(path))
    print(json.dumps(d, indent=1, default=str)[:6000])
    return 0
