"""C04 - parsing is sound: every yielded tree derives exactly the input.

spec -> code: for each grammar of a seeded family (text, bytes and bit-level) TLC enumerates the language up to a
length bound with the derivation machine (Lang.tla); the harness adds near-misses (single-unit edits, truncations)
whose non-membership is decided by the enumeration.  Every word and near-miss is parsed by the real parser.
code -> spec: every yielded tree goes, with its input, to Trace_Tree.tla: Valid, requested start symbol, yield =
input, no helper symbols.  An input outside the language must yield nothing.
API level: Fandango.parse() must only yield trees that satisfy the constraints (judged by Constraint.tla, see C07).
"""
import json
import random

from harness import common
from harness.common import Report
from harness.parsepipe import build_corpus, parse_corpus, input_event
from harness.treetrace import TreeTrace, ir_shape

PROP = "C04"


def run(tier, seed):
    rep = Report(PROP, tier, seed, "model_checking")
    ng, mu = (40, 5) if tier == "quick" else (600, 6)
    cases = build_corpus(rep, seed, ng, mu)
    parse_corpus(cases)
    tt = TreeTrace("c04")
    n_in = n_out = n_trees = skipped = rejected_specs = 0
    for c in cases:
        if "__reader__" in c["parsed"]:
            rejected_specs += 1
            continue
        tt.grammar(c["gid"], c["g"])
        tt.new_trace({"spec": c["spec"], "gid": c["gid"]})
        inside = set(c["inside"])
        for w, (trees, status) in c["parsed"].items():
            if status == "timeout":
                skipped += 1
                continue
            if w in inside:
                n_in += 1
            else:
                n_out += 1
                if trees:
                    rep.violation("accepts:%s:%r" % (c["spec"], w),
                                  "input %r is outside the language of\n%s(decided by the TLC enumeration up to length %d) but the parser yields %s"
                                  % (w, c["spec"], mu, ir_shape(trees[0])[:200]), {"spec": c["spec"], "word": repr(w), "tree": trees[0]})
            kind, val = input_event(w)
            for t in trees:
                tt.tree(c["gid"], c["g"]["start"], t, repr(w), kind, val)
                n_trees += 1
    if rejected_specs > len(cases) // 5:
        raise common.Machinery("too many rendered specs rejected by the reader (%d)" % rejected_specs)
    if n_trees < 100 or n_out < 100:
        raise common.Machinery("corpus too small: %d trees, %d near-misses" % (n_trees, n_out))
    for tid, idx, clause, label, ir, info in tt.judge(rep):
        rep.violation("tree:%s:%s:%s" % (info["spec"], label, clause),
                      "parsing %s with\n%syielded %s: %s" % (label, info["spec"], ir_shape(ir)[:200], clause),
                      {"spec": info["spec"], "word": label, "tree": ir, "clause": clause})
    rep.add(traces_validated_against_impl=n_in + n_out, words_inside=n_in, near_misses_outside=n_out, trees_judged=n_trees,
            skipped_timeouts=skipped, grammars=len(cases) - rejected_specs, specs_rejected_by_reader=rejected_specs,
            truncated_enumerations=sum(1 for c in cases if c["enum"].truncated),
            rule="seeded grammars (text / bytes / 8-bit fields); all words up to %d units from the TLC derivation machine, "
                 "near-misses by single-unit edit; forest requested when the enumeration has <= 50 derivations of the word" % mu)
    ex = next(c for c in cases if c["inside"] and "__reader__" not in c["parsed"])
    rep.sample({"spec": ex["spec"], "inside": [repr(w) for w in ex["inside"][:5]], "outside": [repr(w) for w in ex["outside"][:5]]})
    rep.assumptions += ["membership of a near-miss is decided by the exhaustive TLC enumeration (cap = bound + 1, no node-bound truncation)",
                        "grammars with empty-deriving bodies under open repetitions are excluded (recorded C06 finding)"]
    return rep.finish()


def replay(path):
    d = json.load(open(path))
    print(json.dumps(d, indent=1, default=str)[:6000])
    return 0
