"""C11 - cached evaluations equal fresh evaluations.

1. TLC model-checks Evaluator.tla (fitness cache / solution set keyed by the tree's structural key, in-place edits
   with and without hash invalidation, hash coincidences): Coherent holds iff keys are injective and edits
   invalidate; the sanity configs `stale` and `collide` must fail.
2. spec -> code: every TLC-enumerated history of take / edit-in-place / evaluate operations over four abstract trees
   (satisfying everything / missing a hard constraint / missing the repetition bound / nothing) is replayed on a
   real Evaluator with real constraint objects: emission, verdict and the full result (fitness + failing parts) of
   every evaluation must equal the specification's and a brand-new evaluator's.
3. code -> spec: real search runs with nested quantifiers that rebind scopes; every evaluate_individual return is
   compared with a brand-new Evaluator over freshly read constraints and validated by Trace_Eval.tla.
"""
import json
import os
import random

from harness import common
from harness.common import Report, run_tlc, subdir, pmap

PROP = "C11"

SPEC = ('<start> ::= <n> <x>{int(<n>)} ";" <d>\n<n> ::= "1" | "2"\n<x> ::= "a"\n<d> ::= "0" | "5" | "9"\n'
        'where str(<d>) != "9"\nwhere str(<d>) == "5"\n')
# abstract tree -> (word to parse, leaf value of <n> after the edit that breaks the count, leaf of <d>)
CONCRETE = {1: ("2aa;5", None), 2: ("2aa;0", None), 3: ("2aa;5", "1"), 4: ("2aa;9", "1")}
EDIT_D = {1: "0", 2: "5", 3: "9", 4: "5"}     # EditTo: 1<->2, 3<->4 (changes the <d> leaf in place)

QUANT_SPECS = [
    '<start> ::= <rec>{1,3}\n<rec> ::= <k> "=" <v> ";"\n<k> ::= "a" | "b" | "ab"\n<v> ::= <d>{1,3} | "none"\n<d> ::= "0" | "1" | "7"\n'
    'where forall <r> in <rec>: exists <x> in <r>..<d>: int(<x>) > 0\nwhere |<rec>| >= 2\n',
    '<start> ::= <e> ";" <e>\n<e> ::= <t> | <t> "+" <e> | "(" <e> ")"\n<t> ::= <d> | <d> <t> | "x"\n<d> ::= "0" | "1" | "7"\n'
    'where forall <a> in <e>: forall <b> in <a>.<t>: len(str(<b>)) < 4\nwhere exists <q> in <t>: str(<q>) == "17"\n',
    '<start> ::= "[" <items> "]"\n<items> ::= <item> | <item> "," <items>\n<item> ::= <num> | "[" <items> "]"\n<num> ::= <d>{1,2}\n<d> ::= "1" | "2"\n'
    'where forall <i> in <item>: exists <n> in <i>..<d>: int(<n>) > 1\nwhere any(int(x) == 12 for x in *<num>)\n',
    '<start> ::= <n> <x>{int(<n>)} ";" <d>\n<n> ::= "1" | "2" | "3"\n<x> ::= "a" | "b"\n<d> ::= "0" | "5" | "9"\n'
    'where forall <y> in <x>: str(<y>) == "a"\nwhere int(<d>) > int(<n>)\n',
    # a quantifier body that also mentions a symbol the quantifier does not bind (its verdict depends on the whole tree)
    '<start> ::= <max> ":" <item> ("," <item>)*\n<max> ::= <d>\n<item> ::= <d>\n<d> ::= "0" | "1" | "2" | "3" | "4" | "5" | "6" | "7" | "8" | "9"\n'
    'where forall <x> in <item>: int(<x>) <= int(<max>)\n',
]


def _proto(f):
    """Concrete trees for the four abstract trees (with origin tags from the parser)."""
    from fandango.language.symbols import NonTerminal, Terminal
    from fandango.language.tree import DerivationTree
    from harness.probes import rebuilt
    out = {}
    for k, (word, n_edit) in CONCRETE.items():
        t = f.grammar.parse(word)
        assert t is not None, word
        t = rebuilt(t)
        if n_edit is not None:
            n = t.find_all_trees(NonTerminal("<n>"))[0]
            n.set_children([DerivationTree(Terminal(n_edit))])
        out[k] = t
    return out


def _replay_chunk(hists):
    from fandango.evolution.evaluation import Evaluator
    from fandango.language.symbols import NonTerminal, Terminal
    from fandango.language.tree import DerivationTree
    from harness.fan import make, quiet, normalise
    from harness.probes import rebuilt, clear_caches, FreshJudge, summarise, split_constraints
    quiet()
    normalise(0)
    f = make(SPEC)
    proto = _proto(f)
    judge = FreshJudge(lambda: make(SPEC))
    hard, repc, _ = split_constraints(f.constraints)
    viol = []
    steps = 0
    for h in hists:
        clear_caches(hard + repc)
        ev = Evaluator(f.grammar, list(f.constraints), 1.0, 0, 0.0)
        obj = None
        cur = None
        for i, st in enumerate(h):
            steps += 1
            if st["op"] == "take":
                cur = st["arg"]
                obj = rebuilt(proto[cur])
                hash(obj)
            elif st["op"] == "edit":
                d = obj.find_all_trees(NonTerminal("<d>"))[0]
                d.set_children([DerivationTree(Terminal(EDIT_D[cur]))])
                cur = st["arg"]
            elif st["op"] == "eval":
                gen_ = ev.evaluate_individual(obj)
                ny = 0
                try:
                    while True:
                        next(gen_)
                        ny += 1
                except StopIteration as s:
                    res = s.value
                ops = " ; ".join("%s(%s)" % (x["op"], x["arg"]) for x in h[:i + 1])
                if (ny == 1) != st["emits"] or ny > 1:
                    viol.append(("hist:" + ops, "history %s: evaluation yielded %d tree(s), the specification says %s"
                                 % (ops, ny, "emit" if st["emits"] else "no emission"), {"history": h[:i + 1]}))
                    break
                if (res[0] >= 1.0) != st["all"]:
                    viol.append(("hist:" + ops, "history %s: reported fitness %r but the tree %s all constraints"
                                 % (ops, res[0], "satisfies" if st["all"] else "does not satisfy"), {"history": h[:i + 1]}))
                    break
                got = summarise(res, obj)
                fresh = judge.evaluator_result(obj)
                if got != fresh:
                    viol.append(("hist:" + ops, "history %s: result %s differs from a fresh evaluation %s" % (ops, got, fresh),
                                 {"history": h[:i + 1], "got": got, "fresh": fresh}))
                    break
    return steps, viol


AMBIGUOUS = [
    ('<start> ::= <a> | <a> <a>\n<a> ::= "x" | "x" <a>\nwhere forall <e> in <start>.<a>: str(<e>) == "x"\n', ["xx", "xxx", "xxxx"]),
    ('<start> ::= <l>\n<l> ::= <i> | <i> <l> | <l> <i>\n<i> ::= "a" | "b" | "ab"\nwhere |<start>.<l>.<i>| >= 1\nwhere forall <q> in <l>: len(str(<q>)) < 3 or str(<q>.<i>) != "ab"\n',
     ["ab", "aab", "abab", "abb"]),
    ('<start> ::= <p> <p>?\n<p> ::= <d> | <d> <p> | "(" <p> ")"\n<d> ::= "1" | "2" | "12"\nwhere int(<start>.<p>) > 10\nwhere exists <z> in <p>.<d>: str(<z>) == "12"\n',
     ["12", "112", "1212", "(12)1"]),
]


def _forest_orders(args):
    """Every derivation of an ambiguous word, evaluated in both orders by ONE evaluator: structurally different trees
    (same yield, same pre-order labels) must not share verdicts."""
    import itertools
    from fandango.evolution.evaluation import Evaluator
    from harness.fan import make, quiet, normalise, struct_key
    from harness.probes import rebuilt, clear_caches, FreshJudge, summarise, split_constraints
    spec, words = args
    quiet()
    normalise(0)
    f = make(spec)
    judge = FreshJudge(lambda: make(spec))
    hard, repc, _ = split_constraints(f.constraints)
    viol = []
    n = 0
    for w in words:
        forest = [rebuilt(t) for t in itertools.islice(f.grammar.parse_forest(w), 12)]
        if len({struct_key(t) for t in forest}) < 2:
            continue
        for order in (forest, forest[::-1]):
            clear_caches(hard + repc)
            ev = Evaluator(f.grammar, list(f.constraints), 1.0, 0, 0.0)
            for t in order:
                n += 1
                gen_ = ev.evaluate_individual(t)
                try:
                    while True:
                        next(gen_)
                except StopIteration as st:
                    res = st.value
                got, fresh = summarise(res, t), judge.evaluator_result(t)
                if got != fresh:
                    viol.append(("forest:%s:%s" % (spec, w), "derivations of %r evaluated one after the other by one evaluator: "
                                 "a tree's result %s differs from a fresh evaluation %s" % (w, got, fresh), {"spec": spec, "word": w}))
    return n, viol


def _search_trace(args):
    from harness.fan import make, normalise, quiet
    from harness.probes import evaluator_probe, FreshJudge
    spec, seed, tid = args
    quiet()
    normalise(seed)
    judge = FreshJudge(lambda: make(spec))
    f = make(spec)
    log = []
    h = len(judge.hard)
    r = len(judge.rep)
    out = []
    # two runs on the same spec object: the second Evaluator is new, the constraint objects (and their caches) are not
    for run_no in (0, 1):
        log = []
        with evaluator_probe(log, judge, tid=tid, with_fresh_result=True):
            try:
                f.fuzz(desired_solutions=5, max_generations=4, population_size=8, random_seed=seed + 100 * run_no)
            except Exception:
                pass
        for e in log:
            e.pop("_tree", None)
            e["idx"] += 100000 * run_no
        out += [{"ev": "New", "tid": tid, "h": h, "r": r}] + log
    return out


def run(tier, seed):
    rep = Report(PROP, tier, seed, "model_checking")
    r = run_tlc("MC_Evaluator", "MC_Evaluator_ok", workers=4, coverage=True, timeout=300)
    if r.violated:
        raise common.Machinery("Evaluator model violates %s" % r.violated)
    rep.tlc(r, "MC_Evaluator_ok")
    for cfg in ("MC_Evaluator_stale", "MC_Evaluator_collide"):
        r2 = run_tlc("MC_Evaluator", cfg, workers=1, timeout=300)
        if not r2.violated:
            raise common.Machinery("sanity config %s should violate Coherent/Complete" % cfg)
    rep.add(sanity_configs_violate="stale key after an un-invalidated edit; colliding keys")
    # quick: histories of up to 5 operations (35% sample); thorough: every history of up to 7 operations
    r = run_tlc("MC_Evaluator", "MC_Evaluator_emit" if tier == "quick" else "MC_Evaluator_emit8", workers=1, timeout=1800, heap="8g")
    hists = r.printed("HIST")
    rep.tlc(r, "MC_Evaluator_emit")
    if len(hists) < 1000:
        raise common.Machinery("only %d histories" % len(hists))
    if tier == "quick":
        rnd = random.Random(seed)
        hists = [h for h in hists if rnd.random() < 0.35]
    steps = 0
    for n, viol in pmap(_replay_chunk, [hists[i::16] for i in range(16)]):
        steps += n
        for v in viol:
            rep.violation(*v)
    nforest = 0
    for n, viol in pmap(_forest_orders, AMBIGUOUS):
        nforest += n
        for v in viol:
            rep.violation(*v)
    if nforest < 20:
        raise common.Machinery("ambiguous-forest scenario evaluated only %d trees" % nforest)
    rep.add(forest_order_evaluations=nforest)
    seeds = [seed, seed + 1] if tier == "quick" else list(range(seed, seed + 40))
    jobs = []
    tid = 0
    for spec in QUANT_SPECS:
        for s in seeds:
            tid += 1
            jobs.append((spec, s, tid))
    events = []
    for evs in pmap(_search_trace, jobs):
        events.extend(evs)
    path = os.path.join(subdir("c11"), "evaltrace.ndjson")
    with open(path, "w") as fh:
        for e in events:
            fh.write(json.dumps(e) + "\n")
    r = run_tlc("Trace_Eval", "Trace_Eval", workers=1, env={"TRACE_FILE": path}, timeout=1800)
    rep.tlc(r, "Trace_Eval")
    cl = [l for l in r.out.splitlines() if l.startswith('<<"CONSUMED"')]
    if not cl or ("%d," % len(events)) not in cl[0]:
        raise common.Machinery("Trace_Eval did not consume the trace: %s" % cl)
    bad = r.printed("BAD")
    for b in (bad[0] if bad else []):
        spec, s, _ = jobs[b["tid"] - 1]
        rep.violation("search:%d:%s" % (QUANT_SPECS.index(spec), b["clause"]),
                      "search on quantifier spec %d (seed %d), evaluation %d: %s" % (QUANT_SPECS.index(spec), s, b["idx"], b["clause"]),
                      {"spec": spec, "seed": s, "event": b})
    nev = sum(1 for e in events if e["ev"] == "Eval")
    if nev < 300:
        raise common.Machinery("only %d evaluations recorded" % nev)
    rep.add(traces_validated_against_impl=len(hists) + len(jobs), histories_replayed=len(hists), replayed_steps=steps,
            search_evaluations=nev, exhaustive=(tier == "thorough"),
            rule="histories of 5 operations over {take t, edit in place, evaluate} on 4 abstract trees replayed on a real "
                 "Evaluator; every evaluate_individual return of %d searches on quantifier specs compared with a fresh evaluator" % len(jobs))
    rep.sample({"history": [{"op": x["op"], "arg": x["arg"]} for x in hists[0]], "spec": SPEC})
    rep.assumptions += ["specs without soft constraints", "repair suggestions are compared by the failing parts (path, constraint kind), not by random goal values"]
    return rep.finish()


def replay(path):
    d = json.load(open(path))
    print(json.dumps(d, indent=1, default=str)[:4000])
    return 0
