"""C10 - tree bookkeeping stays consistent under any edits; edits never alias.

1. TLC model-checks TreeHeap.tla (object heap: children, parent links, cached size/hash; one action per
   public operation): Inv_Size, Inv_Hash, Inv_Parent, PureOps.  Sanity config: the re-parenting slice of
   the pinned commit must violate them.
2. spec -> code: every TLC-enumerated history (exhaustive to a small depth from four seed forests, plus
   deeper -simulate behaviours) is replayed on real DerivationTree objects; after each step the projected
   object graph (children, parent, size) must equal the spec's post-state, and hash / == must coincide with
   recomputation from scratch.
3. code -> spec: real search runs; population members, operator inputs/outputs and emitted solutions are
   snapshotted and the snapshots are validated by the trace specification Trace_Heap.tla.
"""
import json
import os
import random
import re

from harness import common
from harness.common import Report, run_tlc, subdir, pmap
from harness.fan import make, normalise, quiet, struct_key

PROP = "C10"
SLICE = "<*slice*>"


# ------------------------------------------------------------------ spec -> code

def _sym_of(o):
    return SLICE if o.symbol.is_slice else o.symbol.format_as_spec()


def _preorder(t):
    out = [t]
    for c in t.children:
        out.extend(_preorder(c))
    return out


def _rebuild(o):
    from fandango.language.tree import DerivationTree
    return DerivationTree(o.symbol, [_rebuild(c) for c in o.children], sender=o.sender, recipient=o.recipient)


def _true_size(o):
    return 1 + sum(_true_size(c) for c in o.children)


class Replayer:
    def __init__(self, grammar):
        self.grammar = grammar
        self.objs = []

    def idof(self, o):
        if o is None:
            return 0
        for i, x in enumerate(self.objs):
            if x is o:
                return i + 1
        return -1

    def project(self):
        return [{"sym": _sym_of(o), "snd": o.sender or "", "ch": [self.idof(c) for c in o.children],
                 "parent": self.idof(o.parent), "size": o.size()} for o in self.objs]

    def apply(self, st):
        from fandango.language.symbols import NonTerminal
        from fandango.language.tree import DerivationTree
        op, a = st["op"], st["args"]
        O = lambda i: self.objs[i - 1]  # noqa
        if op == "seed":
            n = len(a)
            built = {}
            for i in range(n, 0, -1):
                kids = [built[j] for j in range(1, n + 1) if a[j - 1]["parent"] == i]
                built[i] = DerivationTree(NonTerminal(a[i - 1]["sym"]), kids)
            self.objs = [built[i] for i in range(1, n + 1)]
        elif op == "new":
            self.objs.append(DerivationTree(NonTerminal(a[0])))
        elif op == "add_child":
            O(a[0]).add_child(O(a[1]))
        elif op == "set_children":
            p = O(a[0])
            cs = list(p.children)
            p.set_children(cs[:-1] if a[1] == "drop_last" else cs[::-1] if a[1] == "reverse" else [])
        elif op == "set_symbol":
            O(a[0]).symbol = NonTerminal(a[1])
        elif op == "set_sender":
            O(a[0]).sender = a[1] or None
        elif op == "hash":
            hash(O(a[0]))
        elif op == "deepcopy":
            c = O(a[0]).deepcopy(copy_children=True, copy_params=False, copy_parent=False)
            self.objs.extend(_preorder(c))
        elif op == "slice":
            n = O(a[0])
            s = n[a[1] - 1:a[2]]
            self.objs.append(s)
            # reading accessors next to it: indexing hands out the child itself
            assert n[a[1] - 1] is n.children[a[1] - 1]
        elif op == "replace":
            res = O(a[0]).replace(self.grammar, O(a[1]), O(a[2]))
            self.objs.extend(_preorder(res))
        elif op == "split_end":
            O(a[0]).split_end(copy_tree=False)
        else:
            raise common.Machinery("unknown op " + op)

    def independent(self):
        """size / hash / == against recomputation from scratch, for every registered object."""
        errs = []
        keys = []
        for i, o in enumerate(self.objs):
            if o.symbol.is_slice:
                keys.append(None)
                continue
            if o.size() != _true_size(o):
                errs.append("size() of node %d is %d, recomputation gives %d" % (i + 1, o.size(), _true_size(o)))
            if hash(o) != hash(_rebuild(o)):
                errs.append("hash of node %d differs from the hash of a rebuilt copy (stale cache)" % (i + 1))
            keys.append(struct_key(o))
        for i in range(len(self.objs)):
            for j in range(i + 1, len(self.objs)):
                if keys[i] is None or keys[j] is None:
                    continue
                if (self.objs[i] == self.objs[j]) != (keys[i] == keys[j]):
                    errs.append("== of nodes %d and %d is %s but structures %s" % (i + 1, j + 1, self.objs[i] == self.objs[j],
                                "coincide" if keys[i] == keys[j] else "differ"))
        return errs


def hist_str(h, upto):
    return " ; ".join("%s(%s)" % (s["op"], ",".join(str(x) if not isinstance(x, dict) else "%s^%d" % (x["sym"], x["parent"]) for x in s["args"]))
                      for s in h[:upto + 1])


def _replay_chunk(hists):
    quiet()
    g = make('<start> ::= "x"\n').grammar
    viol = []
    steps = 0
    for h in hists:
        r = Replayer(g)
        for k, st in enumerate(h):
            try:
                r.apply(st)
            except common.Machinery:
                raise
            except Exception as e:  # noqa
                viol.append(("hist:" + hist_str(h, k), "history %s: operation raised %s: %s" % (hist_str(h, k), type(e).__name__, e),
                             {"history": h[:k + 1]}))
                break
            steps += 1
            got = r.project()
            if got != st["post"]:
                diff = [i + 1 for i, (x, y) in enumerate(zip(got, st["post"])) if x != y] or ["count %d/%d" % (len(got), len(st["post"]))]
                viol.append(("hist:" + hist_str(h, k),
                             "history %s: object graph differs from the specification's post-state at node(s) %s: real %s, spec %s"
                             % (hist_str(h, k), diff, [got[i - 1] for i in diff if isinstance(i, int)][:2],
                                [st["post"][i - 1] for i in diff if isinstance(i, int)][:2]),
                             {"history": h[:k + 1], "real": got}))
                break
            errs = r.independent()
            if errs:
                viol.append(("hist:" + hist_str(h, k), "history %s: %s" % (hist_str(h, k), errs[0]), {"history": h[:k + 1], "errors": errs}))
                break
    return steps, viol


def parse_sim_hists(out):
    hs = []
    pat = re.compile(r'<<"HIST", "(.*)">>$')
    for line in out.splitlines():
        m = pat.match(line.strip())
        if m:
            hs.append(json.loads(json.loads('"' + m.group(1) + '"')))
    return hs


# ------------------------------------------------------------------ code -> spec

def heap_snapshot(roots):
    """Flat node table of everything reachable from the roots (children and sources), ids by identity."""
    ids = {}
    order = []

    def visit(n):
        if id(n) in ids:
            return
        ids[id(n)] = len(order) + 1
        order.append(n)
        for c in n.children:
            visit(c)
        for s in n.sources:
            visit(s)
    for r in roots:
        visit(r.get_root())
    nodes = []
    for n in order:
        nodes.append({"sym": _sym_of(n), "ch": [ids[id(c)] for c in n.children],
                      "parent": ids.get(id(n.parent), 0) if n.parent is not None else 0,
                      "sizeC": n.size(), "hashOK": hash(n) == hash(_rebuild(n)),
                      "eqOK": (n == _rebuild(n))})
    return nodes


def record_search(seed, spec, tid):
    """Run a real search; snapshot at operator boundaries and at every emitted solution."""
    from fandango.evolution.crossover import SimpleSubtreeCrossover
    from fandango.evolution.mutation import SimpleMutation
    from fandango.evolution.population import PopulationManager
    quiet()
    normalise(seed)
    events = []
    held = {}
    counter = [0]

    def snap(roots):
        ev = {"ev": "Snap", "tid": tid, "idx": counter[0], "nodes": heap_snapshot(roots),
              "frozen": [{"name": k, "struct": repr(struct_key(v))} for k, v in held.items()]}
        counter[0] += 1
        events.append(ev)

    def hold(prefix, t):
        name = "%s%d" % (prefix, len(held))
        held[name] = t
        return name

    oc, om, of = SimpleSubtreeCrossover.crossover, SimpleMutation.mutate, PopulationManager.fix_individual

    def crossover(self, grammar, p1, p2):
        hold("xin", p1), hold("xin", p2)
        res = oc(self, grammar, p1, p2)
        snap([p1, p2] + (list(res) if res else []))
        return res

    def mutate(self, individual, grammar, evaluate_func, *a, **k):
        hold("min", individual)
        res = yield from om(self, individual, grammar, evaluate_func, *a, **k)
        snap([individual, res])
        return res

    def fix(self, individual, suggestion=None):
        hold("fin", individual)
        res = of(self, individual, suggestion)
        snap([individual, res[0]])
        return res

    SimpleSubtreeCrossover.crossover, SimpleMutation.mutate, PopulationManager.fix_individual = crossover, mutate, fix
    try:
        f = make(spec)
        sols = []

        def cb(t, i):
            hold("sol", t)
            sols.append(t)
            snap([t])
        try:
            f.fuzz(desired_solutions=6, max_generations=8, population_size=10, random_seed=seed, solution_callback=cb)
        except Exception:
            pass
        snap(sols + (list(f.fandango.population) if f.fandango is not None else []))
    finally:
        SimpleSubtreeCrossover.crossover, SimpleMutation.mutate, PopulationManager.fix_individual = oc, om, of
    return events


SEARCH_SPECS = [
    '<start> ::= <rec>{1,3}\n<rec> ::= <n> <item>{int(<n>)} ";"\n<n> ::= "1" | "2" | "3"\n<item> ::= "a" | "b" <item>?\nwhere str(<start>).count("b") >= 2\n',
    '<start> ::= <k> "=" <v>\n<k> ::= <l>+\n<l> ::= "x" | "y" | "z"\n<v> ::= <l>{2,4}\nwhere str(<k>) == str(<v>)\nwhere len(str(<v>)) > 2\n',
    '<start> ::= <e>\n<e> ::= <t> | <t> "+" <e>\n<t> ::= <d> | "(" <e> ")"\n<d> ::= "0" | "1" | "7"\nwhere str(<start>).count("7") >= 2\nwhere forall <x> in <t>: len(str(<x>)) < 9\n',
    # generator-defined fields: their parsed children are read-only nodes, which the operators have to copy like any other
    '<start> ::= <tag> ":" <v>{1,4} ";" <sum>\n<tag> ::= <l> <l> := "xy"\n<l> ::= "x" | "y"\n<v> ::= "0" | "1" | "7"\n<sum> ::= <dg> := str(len(str(<tag>)))\n<dg> ::= "1" | "2" | "3"\n'
    'where str(<start>).count("7") >= 2\nwhere str(<v>) != "0"\n',
]


def search_traces(rep, seeds):
    events = []
    tid = 0
    metas = {}
    for si, spec in enumerate(SEARCH_SPECS):
        for s in seeds:
            tid += 1
            evs = record_search(s, spec, tid)
            metas[tid] = {"spec": spec, "seed": s}
            events.extend(evs)
            if len(evs) < 5:
                raise common.Machinery("search run of spec %d (seed %d) produced only %d snapshots" % (si, s, len(evs)))
    path = os.path.join(subdir("c10"), "heaptrace.ndjson")
    with open(path, "w") as fh:
        for e in events:
            fh.write(json.dumps(e) + "\n")
    r = run_tlc("Trace_Heap", "Trace_Heap", workers=1, env={"TRACE_FILE": path}, timeout=1800, heap="8g")
    rep.tlc(r, "Trace_Heap")
    cons = [l for l in r.out.splitlines() if l.startswith('<<"CONSUMED"')]
    if not cons or ("%d," % len(events)) not in cons[0]:
        raise common.Machinery("Trace_Heap did not consume the whole trace: %s" % cons)
    bad = r.printed("BAD")
    for b in (bad[0] if bad else []):
        m = metas[b["tid"]]
        rep.violation("search:%s:%s" % (SEARCH_SPECS.index(m["spec"]), b["clause"]),
                      "search run (spec %d, seed %d), snapshot %d: %s" % (SEARCH_SPECS.index(m["spec"]), m["seed"], b["idx"], b["clause"]),
                      {"spec": m["spec"], "seed": m["seed"], "event": b})
    rep.add(search_snapshots=len(events), search_nodes=sum(len(e["nodes"]) for e in events))
    if len(events) < 10:
        raise common.Machinery("search runs produced only %d snapshots" % len(events))
    return len(metas)


def run(tier, seed):
    rep = Report(PROP, tier, seed, "model_checking")
    mn, mo = (5, 4) if tier == "quick" else (6, 5)
    r = run_tlc("MC_TreeHeap", "MC_TreeHeap_view", workers=8, env={"MAXNODES": str(mn), "MAXOPS": str(mo)}, coverage=False, timeout=3000, heap="12g")
    if r.violated:
        raise common.Machinery("TreeHeap (slice as view) violates %s" % r.violated)
    rep.tlc(r, "MC_TreeHeap_view(nodes<=%d, ops<=%d)" % (mn, mo))
    r2 = run_tlc("MC_TreeHeap", "MC_TreeHeap_impl", workers=4, env={"MAXNODES": "4", "MAXOPS": "4"}, timeout=600)
    if r2.violated not in ("Inv_Parent", "Inv_Size", "Inv_Hash", "PureOps"):
        raise common.Machinery("sanity: the re-parenting slice should violate the invariants")
    rep.add(impl_shaped_slice_violates=r2.violated)
    # exhaustive histories
    en, eo = (5, 3)
    r = run_tlc("MC_TreeHeap", "MC_TreeHeap_emit", workers=1, env={"MAXNODES": str(en), "MAXOPS": str(eo)}, timeout=1800, heap="8g")
    rep.tlc(r, "MC_TreeHeap_emit(nodes<=%d, ops=%d)" % (en, eo))
    hists = parse_sim_hists(r.out)
    if len(hists) < 1000:
        raise common.Machinery("only %d histories enumerated" % len(hists))
    # deeper simulated behaviours
    num = 3000 if tier == "quick" else 40000
    depth = 8
    rs = run_tlc("MC_TreeHeap", "MC_TreeHeap_emit", workers=1, env={"MAXNODES": "7", "MAXOPS": str(depth - 1)},
                 simulate="num=%d" % num, depth=depth, seed=seed + 1, timeout=3000, heap="8g")
    sim = parse_sim_hists(rs.out)
    rep.add(simulated_behaviours=len(sim))
    allh = hists + sim
    chunks = [allh[i::32] for i in range(32)]
    steps = 0
    for n, viol in pmap(_replay_chunk, chunks):
        steps += n
        for v in viol:
            rep.violation(*v)
    ntr = search_traces(rep, [seed + k for k in range(4 if tier == "quick" else 24)])
    rep.add(traces_validated_against_impl=len(allh) + ntr, replayed_steps=steps, exhaustive_histories=len(hists), exhaustive=True,
            rule="all histories of %d operations from 4 seed forests over 11 operation kinds (<= %d nodes), plus %d simulated "
                 "behaviours of depth %d (<= 7 nodes); search runs snapshot at every operator call and emission" % (eo, en, len(sim), depth - 1))
    rep.sample({"history": [{"op": s["op"], "args": s["args"]} for s in (sim[0] if sim else hists[-1])]})
    rep.assumptions += ["callers do not share one node object between two parents and do not build cycles (add_child of a root only)",
                        "slice nodes are views: Inv_Parent/size/hash are asserted for every node except anonymous slice roots",
                        "sources (generator arguments) are not part of the modelled heap; they appear in the recorded heaps of search runs"]
    return rep.finish()


def replay(path):
    d = json.load(open(path))
    print(json.dumps(d, indent=1, default=str)[:4000])
    return 0
