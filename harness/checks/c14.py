"""C14 - the C++ and the Python spec readers agree (translation validation; programs = spec texts).

1. IndentLexer.tla states the layout algorithm both hand-written lexer bases implement (indent stack, bracket depth,
   look-ahead skip rule, DEDENT burst at the end); TLC evaluates it on every enumerated line structure (a `def`
   header followed by <= 2 (quick) / 3 (thorough) lines from 16 line kinds - five indentation strings incl. tab and
   blank-before-tab, `if` headers, blank and comment lines, a bracket spanning two lines - with / without trailing
   statement and final newline).  spec -> code: each structure is rendered as .fan text; the NEWLINE / INDENT /
   DEDENT stream of the Python lexer and the layout leaves of the parse trees of BOTH front ends must equal the
   specification's stream (and therefore each other).
2. differential: every spec text of the corpus - shipped .fan files, the generated families of the other checks,
   and token-level perturbations of them (deletion, duplication, swap, stray indentation / brackets / quotes) - goes
   through both front ends: both reject, or both accept with identical grammar, constraints and Python code.
The C++ reader is rebuilt from /repo's working tree (cached by source hash) before it is loaded.
"""
import glob
import json
import os
import random

from harness import common
from harness.common import Report, run_tlc, subdir, pmap, REPO

PROP = "C14"


def _preload(so):
    import importlib.machinery
    import importlib.util
    import sys
    name = "fandango.language.parser.sa_fandango_cpp_parser"
    if name in sys.modules:
        return
    loader = importlib.machinery.ExtensionFileLoader(name, so)
    spec = importlib.util.spec_from_loader(name, loader)
    mod = importlib.util.module_from_spec(spec)
    loader.exec_module(mod)
    sys.modules[name] = mod


def render_lines(lines, fn):
    n = len(lines)
    return "".join("".join(chr(c) for c in l["ws"]) + l["t"] + ("\n" if (i < n - 1 or fn) else "") for i, l in enumerate(lines))


def _layout_chunk(args):
    so, cases, parse_every = args
    _preload(so)
    import contextlib
    import io
    from antlr4 import Token
    from antlr4.InputStream import InputStream
    from antlr4.tree.Tree import TerminalNodeImpl
    from fandango.language.parser import sa_fandango
    from fandango.language.parser.FandangoLexer import FandangoLexer
    from fandango.language.parser.FandangoParser import FandangoParser
    assert sa_fandango.sa_fandango_cpp_parser.__file__ == so, "stale C++ module loaded"
    LAY = {FandangoParser.NEWLINE: "NL", FandangoParser.INDENT: "IN", FandangoParser.DEDENT: "DE"}

    def squash(toks):
        out = []
        for t in toks:
            if t == "c" and out and out[-1] == "c":
                continue
            out.append(t)
        return out

    def py_tokens(text):
        lx = FandangoLexer(InputStream(text))
        lx.removeErrorListeners()
        out = []
        while True:
            t = lx.nextToken()
            if t.type == Token.EOF:
                break
            if t.channel != 0:
                continue
            out.append(LAY.get(t.type, "c"))
        return squash(out)

    class L(sa_fandango.SA_ErrorListener):
        def __init__(self):
            self.errs = 0

        def syntaxError(self, *a):
            self.errs += 1

    def leaves(tree, out):
        if isinstance(tree, TerminalNodeImpl):
            tp = tree.symbol.type
            if tp != Token.EOF:
                out.append(LAY.get(tp, "c"))
            return
        for i in range(tree.getChildCount()):
            leaves(tree.getChild(i), out)

    def tree_tokens(text, cpp):
        sa_fandango.USE_CPP_IMPLEMENTATION = cpp
        l = L()
        with contextlib.redirect_stderr(io.StringIO()):
            t = sa_fandango.parse(InputStream(text), "fandango", l)
        out = []
        leaves(t, out)
        return squash(out), l.errs
    viol = []
    n = parsed = 0
    for k, c in enumerate(cases):
        text = render_lines(c["lines"], c["fn"])
        n += 1
        try:
            got = py_tokens(text)
        except Exception as e:  # noqa
            got = ["EXC:" + type(e).__name__]
        if got != c["expect"]:
            viol.append(("layout-py:%r" % text, "Python lexer: layout tokens of %r are %s, the specification says %s" % (text, got, c["expect"]),
                         {"text": text, "got": got, "expect": c["expect"]}))
        if k % parse_every == 0:
            parsed += 1
            tp, ep = tree_tokens(text, False)
            tc, ec = tree_tokens(text, True)
            if (ep == 0) != (ec == 0):
                viol.append(("accept:%r" % text, "readers disagree on accepting %r (python errors %d, c++ errors %d)" % (text, ep, ec), {"text": text}))
            elif ep == 0:
                if tp != tc:
                    viol.append(("layout-trees:%r" % text, "parse trees of %r carry different layout tokens: python %s, c++ %s" % (text, tp, tc), {"text": text}))
                if tc != c["expect"]:
                    viol.append(("layout-cpp:%r" % text, "C++ reader: layout tokens of %r are %s, the specification says %s" % (text, tc, c["expect"]), {"text": text}))
    return n, parsed, viol


def _diff_chunk(args):
    so, texts = args
    _preload(so)
    import fandango
    from fandango import Fandango
    from fandango.language.parse.parse_spec import parse_content
    from fandango.language.parser import sa_fandango
    import logging
    import sys
    logging.disable(logging.CRITICAL)
    sys.stderr = open(os.devnull, "w")
    assert sa_fandango.sa_fandango_cpp_parser.__file__ == so

    def conv(text, which):
        Fandango.parser = which
        try:
            spec = parse_content(text, filename="<s>", use_cache=False)
        except BaseException as e:  # noqa
            return ("reject", type(e).__name__)
        try:
            grammar = repr(spec.grammar) if hasattr(spec, "grammar") else repr(spec)
            cons = [c.format_as_spec() for c in getattr(spec, "constraints", [])]
            code = getattr(spec, "code_text", None)
            gens = {k.format_as_spec(): str(v) for k, v in spec.grammar.generators.items()} if hasattr(spec, "grammar") else None
            return ("accept", grammar, cons, code, gens)
        except BaseException as e:  # noqa
            return ("accept-unprintable", type(e).__name__)
    out = []
    for label, text in texts:
        a, b = conv(text, "python"), conv(text, "cpp")
        ok = (a == b) if a[0] == "accept" else (a[0] == b[0])
        out.append((label, text if not ok else None, a[0], b[0], ok))
    Fandango.parser = "auto"
    return out


def perturb(rnd, text):
    toks = list(text)
    ops = rnd.choice(["del", "dup", "swap", "indent", "nl", "bracket", "quote", "tab"])
    if len(toks) < 3:
        return text
    i = rnd.randrange(len(toks) - 1)
    if ops == "del":
        del toks[i]
    elif ops == "dup":
        toks.insert(i, toks[i])
    elif ops == "swap":
        toks[i], toks[i + 1] = toks[i + 1], toks[i]
    elif ops == "indent":
        j = text.rfind("\n", 0, i)
        toks.insert(j + 1, rnd.choice([" ", "  ", "    ", "\t", " \t"]))
    elif ops == "nl":
        toks.insert(i, rnd.choice(["\n", "\r\n", "\n\n", "\n# c\n", " \\\n"]))
    elif ops == "bracket":
        toks.insert(i, rnd.choice("()[]{}"))
    elif ops == "quote":
        toks.insert(i, rnd.choice(["'", '"', 'f"', '"""']))
    else:
        toks[i] = "\t" if toks[i] == " " else toks[i]
    return "".join(toks)


def corpus(seed, tier):
    from harness import gen
    from harness.checks.c11 import QUANT_SPECS
    from harness.checks.c16 import LIB, GRAMMAR, CONS
    rnd = random.Random(seed)
    texts = []
    files = sorted(glob.glob(os.path.join(REPO, "docs", "**", "*.fan"), recursive=True) + glob.glob(os.path.join(REPO, "tests", "resources", "*.fan"))
                   + glob.glob(os.path.join(REPO, "evaluation", "**", "*.fan"), recursive=True))
    shipped = []
    for f in files:
        try:
            t = open(f, encoding="utf-8").read()
        except Exception:
            continue
        if len(t) < (2500 if tier == "quick" else 8000):
            shipped.append((os.path.relpath(f, REPO), t))
    if tier == "quick":
        shipped = rnd.sample(shipped, min(24, len(shipped)))
    texts += shipped
    for k in range(30 if tier == "quick" else 400):
        g = gen.rand_grammar(rnd)
        texts.append(("generated-%d" % k, gen.render(g, gen.rand_constraints(rnd, g))))
    texts += [("quant-%d" % i, s) for i, s in enumerate(QUANT_SPECS)]
    texts += [("generators-%d" % i, LIB + GRAMMAR + "\n".join(c) + "\n") for i, c in enumerate(CONS[:4])]
    base = list(texts)
    for k in range(150 if tier == "quick" else 6000):
        label, t = rnd.choice(base)
        texts.append(("perturbed(%s)#%d" % (label, k), perturb(rnd, t)))
    return texts


def run(tier, seed):
    rep = Report(PROP, tier, seed, "translation_validation")
    from harness import cppbuild
    so = cppbuild.build()
    table = os.path.join(subdir("c14"), "layout.ndjson")
    mb = 2 if tier == "quick" else 3
    r = run_tlc("IndentLexer", "IndentLexer", workers=1, env={"MAXBODY": str(mb), "OUT": table}, timeout=1800, heap="8g")
    rep.tlc(r, "IndentLexer(body<=%d)" % mb)
    cases = [json.loads(l) for l in open(table)]
    if len(cases) < 500:
        raise common.Machinery("layout table has only %d cases" % len(cases))
    jobs = [(so, cases[i::16], 3 if tier == "quick" else 5) for i in range(16)]
    n = parsed = 0
    for a, b, viol in pmap(_layout_chunk, jobs):
        n += a
        parsed += b
        for v in viol:
            rep.violation(*v)
    texts = corpus(seed, tier)
    results = []
    for chunk in pmap(_diff_chunk, [(so, texts[i::16]) for i in range(16)]):
        results.extend(chunk)
    both_accept = sum(1 for r_ in results if r_[2] == "accept" and r_[3] == "accept")
    both_reject = sum(1 for r_ in results if r_[2] == "reject" and r_[3] == "reject")
    for label, text, a, b, ok in results:
        if not ok:
            rep.violation("reader-diff:%s" % label, "spec text %s: python reader %s, c++ reader %s%s" % (label, a, b,
                          " (accepted by both, but grammar / constraints / code differ)" if a == b == "accept" else ""), {"label": label, "text": text})
    if both_accept < 50:
        raise common.Machinery("only %d texts accepted by both readers" % both_accept)
    disagreements = len(rep.violations)
    rep.add(programs=len(results) + n, disagreements_checked=disagreements, layout_structures=n, layout_structures_parsed_by_both=parsed,
            corpus_texts=len(results), accepted_by_both=both_accept, rejected_by_both=both_reject, cpp_module=os.path.basename(os.path.dirname(so)),
            exhaustive=False,
            rule="line structures enumerated by TLC (def header + <= %d lines of 16 kinds, +/- trailing statement, +/- final newline); corpus = "
                 "shipped .fan files, generated specs, perturbed variants" % mb)
    rep.sample({"layout_case": render_lines(cases[len(cases) // 2]["lines"], cases[len(cases) // 2]["fn"]), "expect": cases[len(cases) // 2]["expect"]})
    rep.assumptions += ["the C++ module is rebuilt from the working tree's sources (cmake + make, cached by source hash)",
                        "equality of the two readers' results is judged on repr(grammar), constraint format_as_spec(), code_text and generator sources"]
    return rep.finish()


def replay(path):
    d = json.load(open(path))
    print(json.dumps(d, indent=1, default=str)[:4000])
    return 0
