"""C01 - every generated tree is a derivation of the spec's grammar.

code -> spec: real runs (plain grammar fuzzing and the evolutionary search with crossover, mutation, repair)
over a seeded family of specs rendered from grammar IR; every tree a search operator returns, every member
of the final population and every emitted solution is recorded and judged by TLC with FanIR.Valid
(Trace_Tree.tla).  spec -> code: see C04/C05 (TLC-enumerated derivations replayed into the parser).
"""
import json
import random

from harness import common, gen
from harness.common import Report
from harness.search_driver import record_run
from harness.treetrace import TreeTrace, ir_shape, ir_text

PROP = "C01"

F19_SPEC = '<start> ::= <rec>{1,3}\n<rec> ::= <len> <item>{int(<len>)} "."\n<len> ::= "1" | "2" | "3"\n<item> ::= "a" | "b" <item>?\n'


def f19_grammar():
    T = gen.lit_text
    return {"start": "<start>", "rules": {
        "<start>": gen.rep(gen.nt("<rec>"), 1, 3),
        "<rec>": gen.cat(gen.nt("<len>"), gen.rep(gen.nt("<item>"), 1, gen.INF, ref="<len>"), T(".")),
        "<len>": gen.alt(T("1"), T("2"), T("3")),
        "<item>": gen.alt(T("a"), gen.cat(T("b"), gen.rep(gen.nt("<item>"), 0, 1)))}}


def f19_witness(tt):
    """Pinned witness of the origin-tag finding: copy a record next to itself, then change the copy's <len>."""
    from fandango.evolution.evaluation import Evaluator
    from fandango.language.symbols import NonTerminal
    from harness.fan import make, quiet
    quiet()
    f = make(F19_SPEC)
    g = f.grammar
    t = g.parse("1b.2bb.")
    recs = t.find_direct_trees(NonTerminal("<rec>"))
    t2 = t.replace(g, recs[1], recs[0])
    recs2 = t2.find_direct_trees(NonTerminal("<rec>"))
    t3 = t2.replace(g, recs2[1].children[0], g.parse("3", start="<len>"))
    ev = Evaluator(g, f.constraints, 1.0, 5, 1.0)
    gen_ = ev.evaluate_individual(t3)
    emitted = []
    try:
        while True:
            emitted.append(next(gen_))
    except StopIteration:
        pass
    tt.grammar(900001, f19_grammar())
    tt.new_trace({"spec": F19_SPEC, "seed": 0, "settings": "replace(rec2 := rec1); replace(len2 := '3'); evaluate"})
    for e in emitted:
        tt.tree(900001, "<start>", e, "emitted(F19 witness)")
    return len(emitted)


def one_spec(tt, gid, g, cons, seed, settings):
    spec = gen.render(g, cons)
    tt.grammar(gid, g)
    loose = gid + 100000
    tt.grammar(loose, gen.relaxed(g))
    tt.new_trace({"spec": spec, "seed": seed, "settings": settings})
    try:
        f, events, sols, exc = record_run(spec, seed, **settings)
    except Exception as e:  # the reader rejected the rendered spec: a generator problem, not a verdict
        return {"spec": spec, "rejected": "%s: %s" % (type(e).__name__, str(e)[:100])}
    kinds = {}
    for kind, ins, outs in events:
        kinds[kind.split(":")[0]] = kinds.get(kind.split(":")[0], 0) + 1
        for o in outs:
            if o is None:
                continue
            start = kind.split(":", 1)[1] if kind.startswith("fuzz:") else g["start"]
            tt.tree(loose, start, o, kind)
    for s in sols:
        tt.tree(gid, g["start"], s, "emitted")
    if f.fandango is not None:
        for t in f.fandango.population:
            tt.tree(loose, g["start"], t, "population")
    # plain grammar fuzzing from every symbol
    for sym in g["rules"]:
        if sym in ("<item>", "<len>"):
            pass
        for k in range(2):
            try:
                t = f.grammar.fuzz(sym, random.Random(seed * 7 + k).choice([5, 20, 60]))
            except Exception:
                continue
            # plain fuzzing does not enforce computed counts (they are constraints of the search)
            tt.tree(loose, sym, t, "grammar.fuzz(%s)" % sym)
    return {"spec": spec, "kinds": kinds, "nsol": len(sols), "exc": exc}


GEN_CODE = '''import random
def g_str():
    return str(random.randint(0, 999))
def g_int():
    return random.randint(0, 99)
def g_tree():
    return ("<num>", [("<digit>", [(c, [])]) for c in str(random.randint(10, 999))])
def g_flat():
    return ("<num>", [(str(random.randint(10, 99)), [])])
def g_sum(a, b):
    return str((int(str(a)) + int(str(b))) % 1000)
'''


def generator_specs():
    """generator-defined symbols: the value a generator returns - text, a number, or (deprecated) a tree written as nested
    tuples, in the parser's shape or not - becomes a subtree that has to be a derivation of the symbol like any other"""
    L = gen.lit_text
    digit = gen.alt(*[L(str(d)) for d in range(10)])
    out = []
    for expr in ("g_str()", "g_int()", "g_tree()", "g_flat()", "g_sum(<p>, <q>)"):
        rules = {"<start>": gen.cat(gen.nt("<tag>"), L("="), gen.nt("<num>"), L(";"), gen.rep(gen.nt("<tag>"), 0, 2)),
                 "<num>": gen.rep(gen.nt("<digit>"), 1, 3), "<digit>": digit, "<tag>": gen.rep(gen.alt(L("a"), L("b")), 1, 2)}
        if "<p>" in expr:
            rules["<p>"] = gen.rep(gen.nt("<digit>"), 1, 2)
            rules["<q>"] = gen.nt("<digit>")
        g = {"start": "<start>", "rules": rules, "flavour": "text", "computed": 0, "code": GEN_CODE, "gens": {"<num>": expr}}
        for cons in ([], ['where int(<num>) % 2 == 0'], ['where str(<tag>) != "a"', 'where len(str(<num>)) >= 2']):
            out.append((g, cons))
    return out


SEARCH_SPEC = '<start> ::= <a> <b>?\n<a> ::= "x" | "(" <a> ")"\n<b> ::= <a>{1,2}\n'


def _strip(ir):
    return {"sym": ir["sym"], "term": ir["term"], "kind": ir["kind"], "val": ir["val"], "ch": [_strip(c) for c in ir["ch"]]}


def _replay_search(hists):
    """spec -> code: operator histories of Search.tla applied with the real DerivationTree.replace"""
    from harness.fan import make, quiet, build_tree, tree_ir, struct_key
    quiet()
    g = make(SEARCH_SPEC).grammar

    def at(t, path):
        for i in path:
            t = t.children[i - 1]
        return t
    viol = []
    steps = 0
    for h in hists:
        pop = [build_tree(t) for t in h[0]["post"]]
        for k, st in enumerate(h[1:], 1):
            steps += 1
            before = [struct_key(t) for t in pop]
            ops = " ; ".join("%s(%s,%s)" % (x["op"], x["i"], x["p"]) for x in h[1:k + 1])
            try:
                if st["op"] == "replace":
                    i = st["i"] - 1
                    new = pop[i].replace(g, at(pop[i], st["p"]), build_tree(st["sub"]))
                    if struct_key(pop[i]) != before[i]:
                        viol.append(("search:" + ops, "history %s: replace modified its input tree" % ops, {"history": h[:k + 1]}))
                    pop[i] = new
                else:
                    n1, n2 = at(pop[0], st["p"]), at(pop[1], st["q"])
                    c1 = pop[0].replace(g, n1, n2)
                    c2 = pop[1].replace(g, n2, n1)
                    if [struct_key(t) for t in pop] != before:
                        viol.append(("search:" + ops, "history %s: crossover modified a parent" % ops, {"history": h[:k + 1]}))
                    pop = [c1, c2]
            except Exception as e:  # noqa
                viol.append(("search:" + ops, "history %s: operator raised %s: %s" % (ops, type(e).__name__, e), {"history": h[:k + 1]}))
                break
            got = [_strip(tree_ir(t)) for t in pop]
            exp = [_strip(t) for t in st["post"]]
            if got != exp:
                viol.append(("search:" + ops, "history %s: the population differs from the specification's after the last operator" % ops,
                             {"history": h[:k + 1], "got": got}))
                break
    return steps, viol


def _nodes(n):
    yield n
    for x in n["xs"]:
        yield from _nodes(x)


def has_computed(g):
    return any(x["ref"] for r in g["rules"].values() for x in _nodes(r))


def run(tier, seed):
    rep = Report(PROP, tier, seed, "model_checking")
    rnd = random.Random(seed)
    # design level: the operators preserve Inv_Valid iff replacements keep the symbol; histories replayed into the code
    from harness.common import run_tlc, pmap
    r = run_tlc("MC_Search", "MC_Search_ok", workers=8, timeout=900)
    if r.violated:
        raise common.Machinery("Search model violates %s" % r.violated)
    rep.tlc(r, "MC_Search_ok")
    r2 = run_tlc("MC_Search", "MC_Search_unsafe", workers=2, timeout=300)
    if r2.violated != "Inv_Valid":
        raise common.Machinery("sanity: replacements across symbols should violate Inv_Valid")
    r = run_tlc("MC_Search", "MC_Search_emit", workers=1, timeout=1800, heap="8g")
    hists = r.printed("HIST")
    rep.tlc(r, "MC_Search_emit")
    if len(hists) < 1000:
        raise common.Machinery("only %d operator histories" % len(hists))
    if tier == "quick":
        hists = [h for h in hists if rnd.random() < 0.04]
    rsteps = 0
    for n_, viol in pmap(_replay_search, [hists[i::16] for i in range(16)]):
        rsteps += n_
        for v in viol:
            rep.violation(*v)
    rep.add(operator_histories_replayed=len(hists), operator_steps_replayed=rsteps)
    nspecs = 60 if tier == "quick" else 1200
    tt = TreeTrace("c01")
    stats = []
    for gid in range(1, nspecs + 1):
        g = gen.rand_grammar(rnd)
        cons = gen.rand_constraints(rnd, g)
        settings = {"desired": rnd.choice([5, 10]), "generations": rnd.choice([4, 8]), "population": rnd.choice([4, 10, 25]),
                    "max_nodes": rnd.choice([8, 30, 100])}
        # plain fuzzing of a grammar with computed repetitions must go through the search (repair); keep as is
        stats.append(one_spec(tt, gid, g, cons, seed + gid, settings))
    for k, (g, cons) in enumerate(generator_specs()):
        for s_ in range(1 if tier == "quick" else 8):
            stats.append(one_spec(tt, 200000 + 10 * k + s_, g, cons, seed + 31 * k + s_, {"desired": 6, "generations": 6, "population": 8, "max_nodes": 30}))
    f19_witness(tt)
    bad = tt.judge(rep)
    for tid, idx, clause, label, ir, info in bad:
        key = "tree:%s:%s" % (clause, ir_shape(ir))
        if label == "emitted(F19 witness)":
            key = "witness:F19:" + ir_text(ir)
        rep.violation(key, "%s tree %s (text %r) of spec #%d is not a derivation: %s" % (label, ir_shape(ir)[:200], ir_text(ir)[:60], tid, clause),
                      {"spec": info["spec"], "seed": info["seed"], "settings": info["settings"], "label": label, "tree": ir, "clause": clause})
    rejected = [s for s in stats if "rejected" in s]
    if len(rejected) > nspecs // 4:
        raise common.Machinery("too many rendered specs rejected by the reader: %s" % rejected[:3])
    kinds = {}
    for s in stats:
        for k, v in s.get("kinds", {}).items():
            kinds[k] = kinds.get(k, 0) + v
    for need in ("crossover", "mutate", "fuzz"):
        if kinds.get(need, 0) == 0:
            raise common.Machinery("operator %s never fired (vacuous run)" % need)
    distinct = len({json.dumps(ir, sort_keys=True) for m in tt.meta.values() for (_l, ir) in m["trees"].values()})
    rep.add(traces_validated_against_impl=len(stats) - len(rejected), trees_judged=tt.ntrees, distinct_trees=distinct,
            operator_events=kinds, specs_rejected_by_reader=len(rejected), emitted=sum(s.get("nsol", 0) for s in stats),
            rule="seeded specs rendered from grammar IR (alternatives, concatenations, * + ? {n} {n,m} {n,}, text/bytes/bit "
                 "literals, class regexes, recursion, computed repetitions) x settings; every operator result, final population "
                 "member, emitted solution and plain grammar.fuzz tree is judged by FanIR.Valid in TLC")
    rep.sample({"spec": stats[0]["spec"], "operators": stats[0].get("kinds")})
    rep.assumptions += ["grammar settings (havoc etc.) are not generated: they leave the language on purpose",
                        "open-ended repetitions are unbounded in Valid (the generator's cap is not a declared bound)",
                        "generators (:=) are exercised under C16"]
    return rep.finish()


def replay(path):
    d = json.load(open(path))
    print(json.dumps(d, indent=1, default=str)[:6000])
    return 0
