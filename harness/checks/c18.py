"""C18 - Fandango instances in one process do not influence each other.

1. TLC model-checks Globals.tla (process-wide repetition cap and IO environment key as explicit variables): with a
   cap that is scoped to the run NonInterference holds on every history; with the leaking cap of the pinned commit
   it is violated in two steps (sanity config).
2. spec -> code: every TLC-enumerated history (<= 5 operations: construct / fuzz short or long / parse on A and B,
   ending with an operation on B) is replayed in a fresh process; the event stream B produces (operator results,
   solutions, parse results) is compared in lock-step (Trace_Lockstep.tla) with the stream B produces when it
   runs alone in another fresh process with the same seeds.  Pairs (A, B): A makes the adaptive tuner raise the
   cap, B has open-ended repetitions (text, regex with open quantifier); plus pairs from the generated family.
"""
import json
import os
import random
import subprocess

from harness import common, gen
from harness.common import Report, run_tlc, subdir, repo_env, pmap, VERIF, PY
from harness.checks.c17 import lockstep

PROP = "C18"

PAIRS = [
    ('<start> ::= <d>+\n<d> ::= "0" | "1"\nwhere len(str(<start>)) > 40\n',
     '<start> ::= <x>* "."\n<x> ::= "a" | "b"\n', ["ab.", ".", "abba."]),
    ('<start> ::= <w>{2,}\n<w> ::= "ab" | "c"\nwhere len(str(<start>)) > 60\n',
     '<start> ::= <k> "=" <v>\n<k> ::= r"[a-c]+"\n<v> ::= <digit>+ ("." <digit>*)?\n<digit> ::= "0" | "7"\nwhere len(str(<v>)) >= 2\n', ["a=07", "abc=7.", "c=0.70"]),
    # A's search works on large individuals; B needs the evolutionary loop and has recursive rules, so anything an
    # operator object remembers from A's run (budgets, counters) would change what B's operators produce
    ('<start> ::= <rec>{40,48}\n<rec> ::= <d>{3,5} ";"\n<d> ::= "0" | "1" | "2" | "3" | "4" | "5" | "6" | "7" | "8" | "9"\n'
     'where sum(int(c) for c in str(<start>) if c.isdigit()) % 997 == 13\n',
     '<start> ::= <e>\n<e> ::= <t> | <t> "+" <e> | <t> "*" <e>\n<t> ::= <d> | "(" <e> ")" | <d> <t>\n<d> ::= "0" | "1" | "7"\n'
     'where eval(str(<start>)) % 50 == 27\n', ["7", "(7+1)*0", "17+(0)"], True),
]


def include_pair():
    """two spec objects whose files include different files under the same relative name"""
    d = subdir("c18inc")
    main = "include('common.fan')\n<start> ::= <item> <item> <item> <sep> <item>\nwhere str(<item>) != str(<sep>)\n"
    for v, common_ in (("v1", '<item> ::= "0" | "1"\n<sep> ::= "-"\n'), ("v2", '<item> ::= "a" | "b" | "c"\n<sep> ::= ":" | "/"\n')):
        os.makedirs(os.path.join(d, v), exist_ok=True)
        open(os.path.join(d, v, "main.fan"), "w").write(main)
        open(os.path.join(d, v, "common.fan"), "w").write(common_)
    return ("@file:" + os.path.join(d, "v1", "main.fan"), "@file:" + os.path.join(d, "v2", "main.fan"), ["abc:a", "011-0", "cc/b"])


def job_for(hist, a_spec, b_spec, words, seed, hard=False):
    steps = []
    for st in hist:
        spec = a_spec if st["x"] == "A" else b_spec
        if st["op"] == "make":
            steps.append({"op": "make", "spec": spec, "obj": st["x"]})
        elif st["op"] == "fuzz":
            steps.append({"op": "fuzz", "spec": spec, "obj": st["x"], "seed": seed + (1 if st["x"] == "A" else 5),
                          "settings": {"desired_solutions": 3 if st["x"] == "A" else 8, "population_size": 20 if hard else 10,
                                       "max_generations": (30 if st["long"] else 3) if st["x"] == "A" else (14 if hard else 5)}})
        else:
            steps.append({"op": "parse", "spec": spec, "obj": st["x"], "words": words if st["x"] == "B" else ["0", "c"]})
    return steps


def _run(args):
    cfg, job = args
    d = subdir("c18")
    jp = os.path.join(d, "job%d.json" % cfg)
    op = os.path.join(d, "out%d.ndjson" % cfg)
    json.dump(job, open(jp, "w"))
    try:
        subprocess.run([PY, "-m", "harness.detrun", jp, op], env=repo_env(), cwd=VERIF, timeout=900,
                       stdout=subprocess.DEVNULL, stderr=subprocess.DEVNULL)
        return cfg, [json.loads(l) for l in open(op)]
    except Exception:
        return cfg, [{"k": "harness-timeout", "d": ""}]


def f11_witness():
    """Pinned witness (protocol mode): construct A, construct B, run A - compared with A running alone."""
    from harness.checks.c20 import PROTOCOLS, PARTY, one_run
    from harness.fan import make, quiet
    quiet()
    a, b = PROTOCOLS["ping-pong"], PROTOCOLS["two-senders"]
    alone = one_run(a, [1, 1, 1, 1, 1], None)
    bspec = b["spec"] + "".join(PARTY % (p, m) for p, m in b["parties"].items())
    keep = []
    after = one_run(a, [1, 1, 1, 1, 1], None, after_construct=lambda: keep.append(make(bspec)))
    return (alone["kind"], alone["hist"]) != (after["kind"], after["hist"]), alone["kind"], after["kind"]


def run(tier, seed):
    rep = Report(PROP, tier, seed, "model_checking")
    r = run_tlc("Globals", "Globals_scoped", workers=1, timeout=300)
    if r.violated:
        raise common.Machinery("Globals (scoped cap) violates %s" % r.violated)
    rep.tlc(r, "Globals_scoped")
    r2 = run_tlc("Globals", "Globals_leak", workers=1, timeout=300)
    if r2.violated != "NonInterference":
        raise common.Machinery("sanity: the leaking cap should violate NonInterference")
    for cfg_ in ("Globals_opleak", "Globals_incleak"):
        r3 = run_tlc("Globals", cfg_, workers=1, timeout=300)
        if r3.violated != "NonInterference":
            raise common.Machinery("sanity: %s should violate NonInterference" % cfg_)
    rep.add(leaking_cap_model_violates="NonInterference", stateful_shared_operator_model_violates="NonInterference",
            process_wide_include_cache_model_violates="NonInterference")
    r = run_tlc("Globals", "Globals_emit", workers=1, timeout=300)
    hists = r.printed("HIST")
    rep.tlc(r, "Globals_emit")
    # only histories in which B is constructed and something happened on A; the B-suffix is what is recorded
    hists = [h for h in hists if any(s["x"] == "A" and s["op"] != "make" for s in h)]
    if len(hists) < 50:
        raise common.Machinery("only %d histories" % len(hists))
    rnd = random.Random(seed)
    # the pair whose verdict depends most on how the two searches happen to go is replayed under two more seedings
    pairs = list(PAIRS) + [include_pair()] + [PAIRS[2][:3] + (17,)]
    for _ in range(2 if tier == "quick" else 12):
        ga = gen.rand_grammar(rnd, flavour="text", classes=gen.SMALL_CLASSES)
        gb = gen.rand_grammar(rnd, flavour="text", classes=gen.SMALL_CLASSES)
        pairs.append((gen.render(ga, ['where len(str(<start>)) > 25']), gen.render(gb, gen.rand_constraints(rnd, gb)), ["a", "ab", "xy0"]))
    if tier == "quick":
        hists = rnd.sample(hists, 14) + [h for h in hists if any(s["long"] for s in h)][:6]
    jobs = []
    meta = {}
    cfg = 0
    baselines = {}
    for pi, pair in enumerate(pairs):
        a, b, words = pair[:3]
        hard = len(pair) > 3
        off = pair[3] if hard and not isinstance(pair[3], bool) else 0
        # the pairs with large individuals and many generations take seconds per history: a sample of the histories
        hs = hists if (not hard or len(hists) <= 60) else random.Random(seed + pi).sample(hists, 60)
        for h in hs:
            first_b = next(i for i, s in enumerate(h) if s["x"] == "B")
            bsuffix = [s for s in h if s["x"] == "B"]
            steps = job_for(h, a, b, words, seed + off, hard)
            # record only B's operations: mark by building the job so that A's steps come first is not possible in general,
            # so B's events are filtered by object name below
            cfg += 1
            meta[cfg] = (pi, h)
            jobs.append((cfg, {"steps": steps, "record_from": 0, "only": "B"}))
            key = (pi, json.dumps(bsuffix))
            if key not in baselines:
                cfg += 1
                baselines[key] = cfg
                meta[cfg] = (pi, bsuffix)
                jobs.append((cfg, {"steps": job_for(bsuffix, a, b, words, seed + off, hard), "record_from": 0, "only": "B"}))
    results = dict(pmap(_run, jobs, procs=8))
    pairs_out = []
    for c, (pi, h) in meta.items():
        bsuffix = [s for s in h if s["x"] == "B"]
        base = baselines[(pi, json.dumps(bsuffix))]
        if base == c:
            continue
        pairs_out.append((c, [results[c], results[base]]))

    def describe(b):
        pi, h = meta[b["cfg"]]
        ops = " ; ".join("%s(%s%s)" % (s["op"], s["x"], ",long" if s["long"] else "") for s in h)
        return ("hist:%d:%s" % (pi, ops),
                "pair %d, history %s: B's event stream differs from B running alone in a fresh process at its event %d (%s vs %s)\nA:\n%sB:\n%s"
                % (pi, ops, b["at"], b["a"], b["b"], pairs[pi][0], pairs[pi][1]), {"A": pairs[pi][0], "B": pairs[pi][1], "history": h})
    differs, k1, k2 = f11_witness()
    if differs:
        rep.violation("witness:F11:io-environment", "protocol mode: A alone ends %s; with a second protocol spec constructed before A's run it ends %s" % (k1, k2), {})
    n = lockstep(rep, pairs_out, describe)
    if n < 200:
        raise common.Machinery("only %d aligned events" % n)
    rep.add(traces_validated_against_impl=len(pairs_out), aligned_events=n, pairs=len(pairs), histories=len(hists),
            rule="TLC-enumerated histories (<= 5 operations on A and B ending on B) x (A, B) spec pairs, each replayed in a fresh "
                 "process and compared with B alone")
    rep.sample({"A": PAIRS[0][0], "B": PAIRS[0][1], "history": hists[0]})
    rep.assumptions += ["protocol-mode (FandangoIO) isolation is replayed as a pinned witness under C20's harness (finding F11)",
                        "same random seeds and PYTHONHASHSEED in both processes"]
    return rep.finish()


def replay(path):
    d = json.load(open(path))
    print(json.dumps(d, indent=1, default=str)[:4000])
    return 0
