"""C05 - what Fandango generates, Fandango parses back (round trip).

(ii) spec -> code: every word of the TLC-enumerated language (Lang.tla) that is *in class* - a single derivation,
     every regex leaf maximal munch at its position - must be accepted by the real parser with its exact yield.
(i)  code -> spec: every tree the real generator / search emits is serialised, parsed back through the public API
     and the parsed trees are judged by TLC (Trace_Tree: Valid, yield = the emitted output); the CLI contract
     cli.utils.validate() is applied to each pair.
"""
import json
import os
import random
import re

from harness import common, gen
from harness.common import Report, pmap, run_tlc, subdir
from harness.parsepipe import build_corpus, parse_corpus, input_event, with_timeout, Timeout
from harness.langenum import leaves_of
from harness.treetrace import TreeTrace, ir_shape, ir_text

PROP = "C05"


def regex_nodes(g):
    out = []

    def walk(n):
        if n["k"] == "re":
            out.append(n)
        for x in n["xs"]:
            walk(x)
    for r in g["rules"].values():
        walk(r)
    return out


def class_patterns(g, data):
    """compiled regexes of the grammar that can apply to an input of this type (str patterns for text, bytes for bytes)"""
    pats = []
    for n in regex_nodes(g):
        src = gen.regex_src(n)
        if isinstance(data, str):
            if n["kind"] == "text":
                pats.append(re.compile(src))
        elif n["kind"] == "bytes":
            pats.append(re.compile(src.encode("latin-1")))
        else:
            pats.append(re.compile(src.encode("utf-8")))
    return pats


def leaf_units(kind, val, data):
    """what a leaf contributes to an input of this type"""
    if isinstance(data, str):
        return "".join(chr(c) for c in val)
    return bytes(val) if kind == "bytes" else "".join(chr(c) for c in val).encode("utf-8")


def counted_open(g):
    def walk(n):
        return (n["k"] == "rep" and n["hi"] >= gen.INF and n["lo"] >= 2 and not n["ref"]) or any(walk(x) for x in n["xs"])
    return any(walk(n) for n in g["rules"].values())


def f43_witness():
    """pinned: <start> ::= "-"{2,} rejects 21 dashes (and accepts 20), while "-"+ accepts them"""
    from harness.fan import make, quiet
    quiet()
    f = make('<start> ::= "-"{2,}\n')
    return len(list(f.parse("-" * 20))) > 0 and len(list(f.parse("-" * 21))) == 0


def in_class(case, w):
    """Narrow on purpose: one derivation, and no regex of the grammar could have munched further at a leaf's position."""
    ders = case["enum"].words.get(w, [])
    if len(ders) != 1:
        return False
    if not isinstance(w, (str, bytes)):
        return True  # bit grammars of the family carry no regexes
    pats = class_patterns(case["g"], w)
    pos = 0
    for kind, val in leaves_of(ders[0]):
        text = leaf_units(kind, val, w)
        rest = w[pos:]          # a terminal is matched against the rest of the input on its own (no left context)
        for p in pats:
            if p.fullmatch(text):
                m = p.match(rest)
                if m is None or m.end() != len(text):
                    return False
            else:
                # a regex that could start here and swallow part of this leaf and beyond also makes the split non-unique
                m = p.match(rest)
                if m is not None and m.end() > len(text):
                    return False
        pos += len(text)
    return True


def _roundtrip_case(args):
    """worker: fuzz a spec, serialise every emitted tree, parse it back through the API."""
    from harness.fan import make, normalise, quiet, tree_ir
    from fandango.cli.utils import validate
    spec, seed, settings = args
    quiet()
    normalise(seed)
    out = []
    try:
        f = make(spec)
        sols = f.fuzz(desired_solutions=settings["n"], max_generations=settings["gens"], population_size=settings["pop"], random_seed=seed)
    except Exception as e:  # noqa
        return {"error": "%s: %s" % (type(e).__name__, str(e)[:100]), "items": []}
    for t in sols:
        try:
            data = t.to_bytes() if t.should_be_serialized_to_bytes() else t.to_string()
        except Exception as e:  # noqa
            out.append({"emitted": tree_ir(t), "data": None, "status": "unserialisable:" + type(e).__name__, "parsed": []})
            continue

        def go():
            p = make(spec)
            res = []
            for pt in p.parse(data):
                res.append(pt)
                if len(res) >= 20:
                    break
            return res
        try:
            parsed = with_timeout(go, 10.0)
            status = "ok"
        except Timeout:
            parsed, status = [], "timeout"
        except Exception as e:  # noqa
            parsed, status = [], "exc:" + type(e).__name__
        val_ok = None
        if parsed:
            try:
                validate(t, parsed[0])
                val_ok = True
            except Exception:
                # the first parse may be another derivation of the same output; some parse must validate
                val_ok = False
                for pt in parsed[1:]:
                    try:
                        validate(t, pt)
                        val_ok = True
                        break
                    except Exception:
                        pass
        out.append({"emitted": tree_ir(t), "data": data, "status": status, "parsed": [tree_ir(x) for x in parsed], "validate": val_ok})
    return {"error": None, "items": out}


def _charts(args):
    from harness.fan import make, quiet
    from harness.chartrec import record
    spec, start, words = args
    quiet()
    out = []
    try:
        f = make(spec)
    except Exception:  # noqa
        return out
    for w, inside in words:
        try:
            c = with_timeout(lambda: record(f, w, start), 10.0)
        except BaseException:  # noqa
            f = make(spec)
            continue
        c["inside"] = inside
        out.append((w, c))
    return out


def plain_cases(rep, seed, n, mu):
    """more grammars that compile to plain rules (no regex, no open-ended repetition), with their enumerated languages,
    for the chart conformance only"""
    from harness.chartrec import eligible
    from harness.langenum import enumerate_languages, near_misses
    rnd = random.Random(seed + 4242)
    gs = {}
    for _ in range(n * 40):
        if len(gs) >= n:
            break
        g = gen.rand_nullable_grammar(rnd) if rnd.random() < 0.3 else gen.rand_grammar(rnd, flavour="text", regex_ok=False, computed=False,
                                                                                   classes=gen.SMALL_CLASSES)
        if eligible(g) and gen.grammar_in_family(g) and gen.count_derivations(g, mu) <= 1500 and gen.render(g) not in {gen.render(x) for x in gs.values()}:
            gs[50000 + len(gs)] = g
    enum = enumerate_languages(rep, gs, mu, max_nodes=45, label="Lang(plain-rule grammars)")
    out = []
    for k, g in gs.items():
        e = enum[k]
        inside = sorted(e.words, key=repr)
        outside = [] if e.truncated else near_misses(inside, mu, rnd, limit=40)
        out.append({"gid": k, "g": g, "spec": gen.render(g), "enum": e, "inside": rnd.sample(inside, min(len(inside), 30)), "outside_words": outside,
                    "parsed": {}})
    return out


def chart_conformance(rep, cases, per_case):
    """(iii) binding of the parser model: for the grammars of the corpus that compile to plain rules, the chart of the real
    parse (item cores per column) must equal the chart EarleyChart.tla computes from the same compiled rules, and the
    model's own accept / reject verdict must equal the verdict of the independent enumeration (Lang.tla).  A chart that
    differs is not a violation of C05 by itself (an optimisation may legitimately change the chart): it is reported in
    the evidence and attached to acceptance violations as a diagnosis; a MODEL verdict that contradicts the enumeration
    is a machinery failure."""
    from harness.chartrec import eligible
    jobs, owners = [], []
    for c in cases:
        if "__reader__" in c["parsed"] or not eligible(c["g"]) or c["enum"].truncated:
            continue
        words = [(w, True) for w in c["inside"][:per_case] if isinstance(w, str)]
        words += [(w, False) for w in c["outside_words"][:per_case // 2] if isinstance(w, str)]
        if words:
            jobs.append((c["spec"], c["g"]["start"], words))
            owners.append(c)
    recs = []
    for c, out in zip(owners, pmap(_charts, jobs)):
        for w, r in out:
            recs.append((c, w, r))
    if not recs:
        raise common.Machinery("no grammar of the corpus is eligible for chart conformance")
    path = os.path.join(subdir("c05"), "charts.ndjson")
    with open(path, "w") as fh:
        for _c, _w, r in recs:
            fh.write(json.dumps({k: r[k] for k in ("rules", "start", "input", "chart")}) + "\n")
    r = run_tlc("EarleyChart", "EarleyChart", workers=4, env={"CASES": path}, timeout=1800, heap="8g")
    rep.tlc(r, "EarleyChart(%d parses)" % len(recs))
    ok = bad = 0
    first_bad = None
    seen = set()
    for line in r.out.splitlines():
        m = re.match(r'<<"CHART-(OK|BAD)", (\d+), (TRUE|FALSE)(?:, "(.*)")?>>$', line.strip())
        if not m:
            continue
        ci = int(m.group(2))
        seen.add(ci)
        c, w, rec = recs[ci - 1]
        if (m.group(3) == "TRUE") != rec["inside"]:
            raise common.Machinery("EarleyChart %s %r of\n%salthough the enumeration says the opposite" % ("accepts" if m.group(3) == "TRUE" else "rejects", w, c["spec"]))
        if m.group(1) == "OK":
            ok += 1
        else:
            bad += 1
            c.setdefault("chart_diff", {})[w] = m.group(4)[:600]
            first_bad = first_bad or {"spec": c["spec"], "word": w, "diff": json.loads(json.loads('"' + m.group(4) + '"'))}
    if len(seen) != len(recs):
        raise common.Machinery("EarleyChart judged %d of %d recorded parses" % (len(seen), len(recs)))
    rep.add(chart_conformance={"parses": len(recs), "charts_equal": ok, "charts_differ": bad, "first_difference": first_bad,
                               "grammars": len(owners)})


def run(tier, seed):
    rep = Report(PROP, tier, seed, "model_checking")
    ng, mu = (40, 5) if tier == "quick" else (500, 6)
    # (ii) completeness on the stated class
    cases = build_corpus(rep, seed + 1000, ng, mu)
    for c in cases:
        c["outside_words"] = c["outside"]
        c["outside"] = []
    parse_corpus(cases)
    chart_conformance(rep, cases + plain_cases(rep, seed, 16 if tier == "quick" else 150, mu), 12 if tier == "quick" else 40)
    n_in = n_class = skipped = 0
    tt = TreeTrace("c05")
    for c in cases:
        if "__reader__" in c["parsed"]:
            continue
        tt.grammar(c["gid"], c["g"])
        tt.new_trace({"spec": c["spec"], "gid": c["gid"]})
        for w in c["inside"]:
            if w not in c["parsed"]:
                continue
            trees, status = c["parsed"][w]
            if status == "timeout":
                skipped += 1
                continue
            n_in += 1
            if not in_class(c, w):
                continue
            n_class += 1
            if not trees:
                rep.violation("rejects:%s:%r" % (c["spec"], w),
                              "word %r belongs to the language of\n%s(TLC derivation %s) but the parser rejects it (%s)"
                              % (w, c["spec"], ir_shape(c["enum"].words[w][0])[:160], status),
                              {"spec": c["spec"], "word": repr(w), "derivation": c["enum"].words[w][0]})
    if n_class < 200:
        raise common.Machinery("only %d in-class words (vacuous)" % n_class)
    # (i) round trip of generated trees
    rnd = random.Random(seed)
    jobs = []
    metas = []
    nrt = 40 if tier == "quick" else 600
    for k in range(nrt):
        r = rnd.random()
        if r < 0.15:
            g = gen.rand_bits_grammar(rnd, 8)
        else:
            g = gen.rand_grammar(rnd, flavour="bytes" if r < 0.35 else "text", classes=gen.SMALL_CLASSES)
            while counted_open(g):
                # X{n,} with n >= 2 is parsed with the process-wide cap (20) as its upper bound, while the search may
                # raise the cap and generate more iterations: recorded finding F43, pinned below
                g = gen.rand_grammar(rnd, flavour="bytes" if r < 0.35 else "text", classes=gen.SMALL_CLASSES)
        cons = gen.rand_constraints(rnd, g)
        spec = gen.render(g, cons)
        jobs.append((spec, seed + k, {"n": 8, "gens": 6, "pop": 10}))
        metas.append(g)
    results = pmap(_roundtrip_case, jobs)
    n_rt = n_rt_class = 0
    for k, (g, (spec, s, _), res) in enumerate(zip(metas, jobs, results)):
        gid = 5000 + k
        tt.grammar(gid, g)
        tt.new_trace({"spec": spec, "gid": gid})
        for it in res["items"]:
            n_rt += 1
            if it["status"] == "timeout":
                skipped += 1
                continue
            data = it["data"]
            # class: the emitted tree's own regex leaves are maximal munch in the output
            ok_class = True
            pats = class_patterns(g, data) if isinstance(data, (str, bytes)) else []
            if pats:
                pos = 0
                for kind, val in leaves_of(it["emitted"]):
                    text = leaf_units(kind, val, data)
                    for p in pats:
                        m = p.match(data[pos:])
                        if m is not None and m.end() > len(text):
                            ok_class = False
                    pos += len(text)
            if not ok_class:
                continue
            n_rt_class += 1
            if data is None or not it["parsed"]:
                rep.violation("roundtrip:%s:%r" % (spec, data),
                              "output %r generated from\n%sis not parsed back by the same spec (%s); generated tree %s"
                              % (data, spec, it["status"], ir_shape(it["emitted"])[:160]),
                              {"spec": spec, "seed": s, "output": repr(data), "tree": it["emitted"]})
                continue
            if it["validate"] is False:
                rep.violation("validate:%s:%r" % (spec, data), "cli validate() rejects every parse of the generated output %r of\n%s" % (data, spec),
                              {"spec": spec, "seed": s, "output": repr(data)})
            kind, val = input_event(data)
            for pt in it["parsed"]:
                tt.tree(gid, g["start"], pt, repr(data), kind, val)
    for tid, idx, clause, label, ir, info in tt.judge(rep):
        rep.violation("tree:%s:%s:%s" % (info["spec"], label, clause), "re-parsing generated output %s with\n%syielded %s: %s"
                      % (label, info["spec"], ir_shape(ir)[:160], clause), {"spec": info["spec"], "word": label, "tree": ir})
    if n_rt_class < 100:
        raise common.Machinery("only %d generated outputs in class (vacuous)" % n_rt_class)
    rep.add(traces_validated_against_impl=n_class + n_rt_class, enumerated_words=n_in, enumerated_in_class=n_class,
            generated_outputs=n_rt, generated_in_class=n_rt_class, skipped_timeouts=skipped,
            rule="(ii) every word <= %d units of %d generated grammars that has one derivation and maximal-munch regex leaves; "
                 "(i) every solution of %d seeded search runs, parsed back through Fandango.parse" % (mu, ng, nrt))
    if f43_witness():
        rep.violation("witness:F43:counted-open-repetition", "<start> ::= \"-\"{2,} accepts 20 dashes and rejects 21", {"spec": '<start> ::= "-"{2,}'})
    rep.sample({"spec": cases[0]["spec"], "in_class_words": [repr(w) for w in cases[0]["inside"] if in_class(cases[0], w)][:6]})
    rep.assumptions += ["the class is enforced per word from the TLC enumeration; a narrower class can only lose detections",
                        "CPython's re decides maximal munch of the class regexes"]
    return rep.finish()


def replay(path):
    d = json.load(open(path))
    print(json.dumps(d, indent=1, default=str)[:6000])
    return 0
