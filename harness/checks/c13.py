"""C13 - incremental parsing is independent of how the input is fragmented.

spec -> code: Feeding.tla (TLC) enumerates every composition of an input of n <= 7 units into fragments; for each
(grammar, word) of the Lang-enumerated corpus the real IterativeParser is driven along every schedule.  After the
last fragment the set of complete parses must equal the set obtained when the whole input is fed at once, and
after every non-final fragment can_continue() must hold (the word itself is an extension inside the language -
membership decided by the TLC enumeration).  Text (incl. non-ASCII), bytes and bit-level grammars; cuts inside
literals, regex matches and multi-byte characters.
"""
import json
import random

from harness import common, gen
from harness.common import Report, run_tlc, pmap
from harness.parsepipe import build_corpus, real_input, with_timeout, Timeout
from harness.checks.c05 import in_class

PROP = "C13"

PINNED = [
    {"fid": "F18", "spec": '<start> ::= <a> <b>\n<a> ::= r"[a-c]+"\n<b> ::= "cd" | "d"\n', "word": "abcd"},
    {"fid": "F18", "spec": '<start> ::= <a> <b>\n<a> ::= r"[a-c]+"\n<b> ::= "cd"\n', "word": "abcd"},
]


def shape_grammars():
    """Every way two neighbouring terminals of one rule can meet a cut: literal of several units before / after a regex,
    two literals, two regexes, inside a bounded repetition, text and bytes (enumerated by Lang.tla like the rest)."""
    L, R, B = gen.lit_text, gen.regex, gen.lit_bytes
    bodies = [
        gen.cat(L("GE"), R([("abc", 1, gen.INF)]), L(";")),
        gen.cat(R([("01", 1, gen.INF)]), L("ab"), R([("xy", 1, 2)])),
        gen.cat(L("abc"), gen.alt(R([("ab", 1, 2)]), L("d")), L("\u00e9")),
        gen.rep(gen.cat(L("xy"), R([("01", 1, 2)])), 1, 2),
        gen.cat(L("ab"), L("cd"), R([("e", 0, 2)])),
        gen.cat(R([("ab", 1, 2)]), R([("01", 1, 2), ("c", 1, 1)]), L("zz")),
        gen.cat(B(b"\x01\x02"), gen.alt(B(b"\x03\x04\x05"), B(b"\x03")), B(b"\x00")),
    ]
    return [{"start": "<start>", "rules": {"<start>": b}, "flavour": "bytes" if i == 6 else "text", "computed": 0} for i, b in enumerate(bodies)]


# regexes beyond the class-sequence IR (optional groups, alternation, repetition of groups), each followed by a delimiter
# the regex cannot match, with words written out; the oracle is the whole-input feed of the same word
RICH = [
    ('<start> ::= <num> ";"\n<num> ::= r"[0-9]+(\\.[0-9]+)?"\n', ["12.5;", "7;", "3.25;", "10.0;", "1.5;"]),
    ('<start> ::= "v=" r"(ab|cd)+" "!"\n', ["v=ab!", "v=abcd!", "v=cd!"]),
    ('<start> ::= <k> "=" <v> ";"\n<k> ::= r"[a-z]+(-[a-z]+)*"\n<v> ::= r"[0-9](,[0-9])*"\n', ["a-b=1;", "ab=1,2;", "a=1,2;", "a-b=1;"]),
    ('<start> ::= "GET " r"[a-z/]+" "\\n"\n', ["GET /a\n", "GET a\n"]),
    ('<start> ::= rb"\\x01(\\x02\\x03)?" b"\\xff"\n', [b"\x01\xff", b"\x01\x02\x03\xff"]),
]


_PARSERS = {}


def drive(rules, word, cuts, start="<start>"):
    """-> (sorted list of distinct complete parses (struct keys), [can_continue after each fragment])"""
    from fandango.language.grammar import ParsingMode
    from fandango.language.grammar.parser.iterative_parser import IterativeParser
    from harness.fan import struct_key
    p = _PARSERS.get(id(rules))
    if p is None:
        _PARSERS.clear()
        p = _PARSERS[id(rules)] = IterativeParser(rules)   # one parser object per grammar, as in production
    p.new_parse(start, ParsingMode.COMPLETE)
    prev = 0
    res = []
    cont = []
    for c in list(cuts) + [len(word)]:
        res = []
        for t, complete in p.consume(word[prev:c]):
            if complete:
                ct = p.collapse(t)
                if ct is not None:
                    res.append(struct_key(ct))
        prev = c
        cont.append(p.can_continue())
    return sorted(set(res), key=repr), cont


def _case(args):
    from harness.fan import make, quiet
    spec, words, schedules, start = args[:4]
    must_parse = len(args) > 4 and args[4]
    quiet()
    out = []
    n = 0
    try:
        f = make(spec)
    except Exception as e:  # noqa
        return 0, [], "reader: %s" % e
    for w in words:
        inp = real_input(w)
        if inp is None or len(inp) < 2 or len(inp) not in schedules:
            continue
        try:
            whole, _ = with_timeout(lambda: drive(f.grammar.rules, inp, [], start), 10.0)
        except Timeout:
            continue
        except Exception as e:  # noqa
            out.append((repr(inp), [], "whole-input feed raised %s" % type(e).__name__))
            continue
        if must_parse and not whole:
            return 0, [], "the word %r, written out as a member of the template's language, is not parsed when fed whole" % (inp,)
        for cuts in schedules[len(inp)]:
            if not cuts:
                continue
            n += 1
            try:
                got, cont = with_timeout(lambda: drive(f.grammar.rules, inp, cuts, start), 10.0)
            except Timeout:
                continue
            except Exception as e:  # noqa
                out.append((repr(inp), cuts, "raised %s: %s" % (type(e).__name__, str(e)[:80])))
                continue
            if got != whole:
                out.append((repr(inp), cuts, "complete parses after the last fragment differ from feeding the whole input "
                                             "(%d vs %d distinct trees)" % (len(got), len(whole))))
            elif whole and not all(cont[:-1]):
                k = cont.index(False)
                out.append((repr(inp), cuts, "can_continue() is False after fragment %d although the input continues to a word of the language" % (k + 1)))
    return n, out, None


def run(tier, seed):
    rep = Report(PROP, tier, seed, "model_checking")
    r = run_tlc("Feeding", "Feeding", workers=1, timeout=300)
    if r.violated:
        raise common.Machinery("Feeding.tla violates %s" % r.violated)
    rep.tlc(r, "Feeding(n<=7)")
    schedules = {}
    for line in r.out.splitlines():
        if line.startswith('<<"SCHEDULE"'):
            parts = line.strip()[2:-2].split(", ", 2)
            schedules.setdefault(int(parts[1]), []).append(json.loads(json.loads(parts[2])))
    if sum(len(v) for v in schedules.values()) != sum(2 ** (n - 1) for n in range(1, 8)):
        raise common.Machinery("expected all compositions for n <= 7, got %s" % {k: len(v) for k, v in schedules.items()})
    ng, mu = (50, 6) if tier == "quick" else (400, 7)
    rnd = random.Random(seed)
    extra = [gen.rand_bits_grammar(rnd, 16) for _ in range(3 if tier == "quick" else 20)]
    cases = build_corpus(rep, seed + 2000, ng, mu, bits_share=0.0, bytes_share=0.3, extra=shape_grammars())
    # 16-bit grammars are enumerated separately (all their words have 16 units)
    from harness.langenum import enumerate_languages
    bits = {9000 + i: g for i, g in enumerate(extra)}
    enum_bits = enumerate_languages(rep, bits, 16, max_nodes=80, label="Lang-bits16")
    for k, g in bits.items():
        ws = sorted(enum_bits[k].words, key=repr)
        cases.append({"gid": k, "g": g, "spec": gen.render(g), "enum": enum_bits[k], "inside": rnd.sample(ws, min(len(ws), 12)), "outside": []})
    jobs = []
    nwords = 0
    for c in cases:
        words = [w for w in c["inside"] if in_class(c, w)]
        cap = 14 if tier == "quick" else 30
        if len(words) > cap:
            # stratified: words with characters outside ASCII first (their units are not their bytes), then a random rest
            wide = [w for w in words if isinstance(w, str) and any(ord(ch) > 127 for ch in w)]
            wide = rnd.sample(wide, min(len(wide), cap // 2))
            rest = [w for w in words if w not in wide]
            words = wide + rnd.sample(rest, cap - len(wide))
        nwords += len(words)
        jobs.append((c["spec"], words, schedules, c["g"]["start"]))
    for spec, words in RICH:
        cases.append({"spec": spec, "g": {"start": "<start>"}, "rich": True})
        jobs.append((spec, [w for w in words if len(w) <= 7], schedules, "<start>", True))
        nwords += len(words)
    total = 0
    for c, (n, out, err) in zip(cases, pmap(_case, jobs)):
        if c.get("rich") and (err or n == 0):
            raise common.Machinery("template %r was not exercised: %s" % (c["spec"], err))
        total += n
        for inp, cuts, what in out:
            rep.violation("frag:%s:%s:%s" % (c["spec"], inp, cuts), "input %s fed with cuts at %s to\n%s%s" % (inp, cuts, c["spec"], what),
                          {"spec": c["spec"], "input": inp, "cuts": cuts, "what": what})
    # pinned witnesses (greedy regex vs fragments: recorded finding, outside the class)
    for p in PINNED:
        n, out, err = _case((p["spec"], [p["word"]], schedules, "<start>"))
        if out:
            rep.violation("witness:%s:%s:%s" % (p["fid"], p["spec"], p["word"]), "pinned witness %s: %s" % (p["word"], out[0][2]), p)
    if total < 2000:
        raise common.Machinery("only %d schedules driven (vacuous)" % total)
    rep.add(traces_validated_against_impl=total, words=nwords, grammars=len(cases), exhaustive=True,
            rule="every composition (2^(n-1)) of every in-class word (n <= 7 units) of the generated grammars, driven through "
                 "IterativeParser.new_parse/consume/can_continue")
    rep.sample({"spec": cases[0]["spec"], "word": repr(cases[0]["inside"][:1]), "schedules_for_n4": schedules.get(4)})
    rep.assumptions += ["words outside the maximal-munch class (greedy regex splits) are replayed only as pinned witnesses (finding F18)",
                        "results are compared schedule against schedule (whole input vs fragments) on the same parser class",
                        "can_continue is only required to be True on prefixes of enumerated words"]
    return rep.finish()


def replay(path):
    d = json.load(open(path))
    print(json.dumps(d, indent=1, default=str)[:4000])
    return 0
