"""C03 - a tree that satisfies all constraints is accepted as a solution.

1. TLC model-checks Evaluator.tla (acceptance rule, caches) within small constants.
2. spec -> code: TLC writes the full case table (h, r, hs, rs) -> expected verdict; every row is
   replayed on a real Evaluator over stub constraint objects (real arithmetic of evaluate_individual).
3. code -> spec: real searches on generated specs with exactly h `where` clauses and r computed
   repetitions; every evaluate_individual return is recorded and validated by Trace_Eval.tla.
"""
import json
import os
import random

from harness import common
from harness.common import Report, run_tlc, subdir
from harness import fan
from harness.fan import make, normalise, quiet, tree_text

PROP = "C03"


def gen_spec(h, r):
    parts, rules, cons = [], [], []
    for k in range(1, r + 1):
        parts.append("<blk%d>" % k)
        rules.append('<blk%d> ::= <n%d> <x%d>{int(<n%d>)} ";"' % (k, k, k, k))
        rules.append('<n%d> ::= "1" | "2" | "3"' % k)
        rules.append('<x%d> ::= "a" | "b"' % k)
    for k in range(1, h + 1):
        parts.append("<d%d>" % k)
        rules.append('<d%d> ::= "0" | "1" | "2" | "3" | "4" | "5" | "6" | "7" | "8" | "9"' % k)
        cons.append("where int(<d%d>) >= %d" % (k, k % 4))
    if not parts:
        parts = ['"z"']
    return "<start> ::= " + " ".join(parts) + "\n" + "\n".join(rules) + "\n" + "\n".join(cons) + "\n"


def gen_spec_k(k):
    """one comparison constraint that is evaluated at k places of the tree (the per-constraint fitness is a mean over k matches)"""
    return ('<start> ::= <d>{%d}\n<d> ::= "0" | "1" | "2" | "3" | "4" | "5" | "6" | "7" | "8" | "9"\nwhere int(<d>) != 9\n' % k)


def table_replay(rep, maxn):
    from fandango.evolution.evaluation import Evaluator
    from fandango.constraints.constraint import Constraint
    from fandango.constraints.repetition_bounds import RepetitionBoundsConstraint
    from fandango.constraints.fitness import ConstraintFitness
    from fandango.constraints.failing_tree import NopSuggestion
    from fandango.language.grammar.grammar import Grammar
    from fandango.language.tree import DerivationTree
    from fandango.language.symbols import NonTerminal, Terminal

    class Stub(Constraint):
        def __init__(self, ok):
            super().__init__()
            self.ok = ok

        def fitness(self, tree, scope=None, local_variables=None):
            return ConstraintFitness(1 if self.ok else 0, 1, self.ok, NopSuggestion())

        def accept(self, v):
            pass

        def format_as_spec(self):
            return "stub"

        def invert(self):
            return self

    class RepStub(RepetitionBoundsConstraint):
        def __init__(self, ok):
            Constraint.__init__(self)
            self.ok = ok

        def fitness(self, tree, scope=None, local_variables=None):
            return ConstraintFitness(1 if self.ok else 0, 1, self.ok, NopSuggestion())

        def format_as_spec(self):
            return "repstub"

    out = os.path.join(subdir("c03"), "table.ndjson")
    r = run_tlc("EvalTable", "EvalTable", workers=1, env={"MAXH": str(maxn), "MAXR": str(maxn), "OUT": out})
    rep.tlc(r, "EvalTable(max=%d)" % maxn)
    rows = [json.loads(l) for l in open(out)]
    if len(rows) < 100:
        raise common.Machinery("EvalTable produced only %d rows" % len(rows))
    g = Grammar.dummy()
    rnd = random.Random(rep.seed)
    n = 0
    for c in rows:
        # all declaration orders give the same lists inside the Evaluator; shuffle the order anyway
        cons = [Stub(i < c["hs"]) for i in range(c["h"])] + [RepStub(i < c["rs"]) for i in range(c["r"])]
        rnd.shuffle(cons)
        ev = Evaluator(g, cons, 1.0, 0, 0.0)
        t = DerivationTree(NonTerminal("<start>"), [DerivationTree(Terminal("x"))])

        def once():
            gen = ev.evaluate_individual(t)
            k = 0
            try:
                while True:
                    next(gen)
                    k += 1
            except StopIteration:
                return k
        first, second = once(), once()
        n += 1
        key = "table:h=%d,r=%d,hs=%d,rs=%d" % (c["h"], c["r"], c["hs"], c["rs"])
        if (first == 1) != c["accept"] or first > 1:
            rep.violation(key, "Evaluator with %d hard (%d satisfied) and %d repetition-bound (%d satisfied) constraints: "
                          "yielded=%s, specification says %s" % (c["h"], c["hs"], c["r"], c["rs"], first == 1, c["accept"]),
                          {"kind": "table", "row": c})
        if second != 0:
            rep.violation(key + ":again", "second evaluation of the same tree yielded again", {"kind": "table", "row": c})
    rep.add(table_rows=n)
    rep.sample({"table_row": rows[len(rows) // 3]})
    return n


def e2e(rep, pairs, seeds, ks=()):
    from harness.probes import evaluator_probe, FreshJudge
    quiet()
    events = []
    tid = 0
    meta = {}
    plan = [(h, r, gen_spec(h, r)) for (h, r) in pairs] + [(1, 0, gen_spec_k(k)) for k in ks]
    for (h, r, spec) in plan:
        for s in seeds:
            tid += 1
            normalise(s)
            judge = FreshJudge(lambda: make(spec))
            f = make(spec)
            log = []
            events.append({"ev": "New", "tid": tid, "h": h, "r": r})
            meta[tid] = {"h": h, "r": r, "seed": s, "spec": spec}
            with evaluator_probe(log, judge, tid=tid):
                try:
                    sols = f.fuzz(desired_solutions=4, max_generations=6, population_size=8, random_seed=s)
                except Exception as e:  # "no solution found" style failures are not verdicts here
                    sols = []
                    meta[tid]["exc"] = type(e).__name__
            meta[tid]["nsol"] = len(sols)
            meta[tid]["allsat_seen"] = sum(1 for e in log if all(e["hsat"]) and all(e["rsat"]))
            for e in log:
                e["_text"] = tree_text(e.pop("_tree"))
            events.extend(log)
    path = os.path.join(subdir("c03"), "evaltrace.ndjson")
    texts = {}
    with open(path, "w") as fh:
        for e in events:
            if "_text" in e:
                texts[(e["tid"], e["idx"])] = e.pop("_text")
            fh.write(json.dumps(e) + "\n")
    r = run_tlc("Trace_Eval", "Trace_Eval", workers=1, env={"TRACE_FILE": path})
    rep.tlc(r, "Trace_Eval")
    consumed = [l for l in r.out.splitlines() if l.startswith('<<"CONSUMED"')]
    if not consumed or ("%d," % len(events)) not in consumed[0]:
        raise common.Machinery("Trace_Eval did not consume the whole trace: %s" % consumed)
    bad = r.printed("BAD")
    bad = bad[0] if bad else []
    relevant = {"missed-solution", "emitted-twice", "constraint-count"}
    for b in bad:
        if b["clause"] not in relevant:
            continue
        m = meta[b["tid"]]
        key = "e2e:h=%d,r=%d:%s" % (m["h"], m["r"], b["clause"])
        rep.violation(key, "spec with %d where-clauses and %d computed repetitions (seed %d): event %d %s: tree %r"
                      % (m["h"], m["r"], m["seed"], b["idx"], b["clause"], texts.get((b["tid"], b["idx"]))),
                      {"kind": "e2e", "spec": m["spec"], "seed": m["seed"], "event": b})
    nev = sum(1 for e in events if e["ev"] == "Eval")
    allsat = sum(m["allsat_seen"] for m in meta.values())
    rep.add(traces_validated_against_impl=len(meta), e2e_events=nev, e2e_all_satisfying_evaluations=allsat,
            e2e_pairs=len(pairs), e2e_runs_with_solution=sum(1 for m in meta.values() if m["nsol"]))
    rep.sample({"e2e_spec": gen_spec(1, 2), "events": nev})
    if allsat == 0:
        raise common.Machinery("end-to-end runs never evaluated an all-satisfying tree (vacuous)")


def run(tier, seed):
    rep = Report(PROP, tier, seed, "model_checking")
    rep.assumptions += ["satisfaction of a constraint in the end-to-end part is judged by brand-new constraint objects "
                        "(re-read spec, empty caches, independent tree copy); the acceptance rule itself is the TLA+ one",
                        "specs without soft constraints"]
    for cfg in ("MC_Evaluator_ok", "MC_Evaluator_io"):
        r = run_tlc("MC_Evaluator", cfg, workers=4, coverage=True, timeout=300)
        if r.violated:
            raise common.Machinery("design-level model %s violates %s" % (cfg, r.violated))
        rep.tlc(r, cfg)
    maxn = 9 if tier == "quick" else 16
    table_replay(rep, maxn)
    rnd = random.Random(seed)
    allpairs = [(h, r) for h in range(0, 11) for r in range(0, 11) if 0 < h + r <= 10]
    if tier == "quick":
        pairs = [(1, 5), (5, 1), (2, 5), (3, 3), (0, 3), (4, 0)] + rnd.sample(allpairs, 10)
        seeds = [seed]
    else:
        pairs = allpairs + [(h, r) for h in (11, 13, 16) for r in (2, 5, 10)]
        seeds = [seed, seed + 1]
    e2e(rep, pairs, seeds, ks=range(1, 13) if tier == "quick" else range(1, 33))
    rep.add(exhaustive=True,
            rule="table: every (h,r,hs,rs) with h,r <= %d; end-to-end: one search per (h,r) pair and seed, "
                 "every evaluate_individual return is one event" % maxn)
    return rep.finish()


def replay(path):
    d = json.load(open(path))
    print(json.dumps(d, indent=1))
    return 0
