"""C16 - generator-defined fields carry generator output and are not edited behind it.

1. TLC model-checks Generators.tla (argument replacement re-generates the field, generated text itself is never
   edited); the sanity config "re-generate only when the last argument changed" must violate FieldIsGenerated.
2. spec -> code: every TLC-enumerated history of argument replacements / attempted edits of generated text is
   replayed on a real tree with DerivationTree.replace (the call crossover, mutation and repair make); after each
   step the field texts and recorded arguments must equal the specification's state.
3. code -> spec: real search runs on specs whose generators are Python functions in the spec text that log
   (symbol, argument texts, return value); for every emitted solution, population member and operator result each
   generator-defined field is checked by Trace_Gen.tla: its text is a value the generator returned for exactly
   the recorded arguments, and equals G(args) for the library generators.  A generator whose value does not fit
   the rule must surface as an error.
"""
import json
import os
import random

from harness import common
from harness.common import Report, run_tlc, subdir, pmap

PROP = "C16"

LIB = '''
import random
CALLS = []
def g_len(x):
    v = str(len(str(x)))
    CALLS.append(("<len>", [str(x)], v))
    return v
def g_tag():
    v = random.choice(["aa", "b", "ccc"])
    CALLS.append(("<tag>", [], v))
    return v
def g_sum(a, b):
    v = str((int(str(a)) + int(str(b))) % 10)
    CALLS.append(("<chk>", [str(a), str(b)], v))
    return v
def g_const():
    CALLS.append(("<ktag>", [], "cc"))
    return "cc"
def g_wrap(t):
    v = "[" + str(t) + "]"
    CALLS.append(("<wrap>", [str(t)], v))
    return v
'''
GRAMMAR = '''<start> ::= <tag> ":" <body> ":" <len> ":" <chk> <tail> <wrap>
<ktag> ::= <ch>+ := g_const()
<tag> ::= <ch>+ := g_tag()
<body> ::= <ch>{1,5}
<ch> ::= "a" | "b" | "c"
<len> ::= <digit>+ := g_len(<body>)
<chk> ::= <digit> := g_sum(<p>, <q>)
<p> ::= <digit>
<q> ::= <digit>
<digit> ::= "0" | "1" | "2" | "3" | "4" | "5" | "6" | "7" | "8" | "9"
<tail> ::= <digit>{0,3}
<wrap> ::= "[" <ch>+ "]" := g_wrap(<ktag>)
'''
CONS = [[], ['where int(<chk>) == 7'], ['where int(<chk>) > 7', 'where int(<len>) >= 4'], ['where int(<chk>) == int(<len>)'],
        ['where str(<body>).count("a") >= 2'], ['where len(str(<tail>)) == 2', 'where str(<body>) != "a"'],
        ['where int(<chk>) > 3'], ['where str(<tag>) != "b"'], ['where int(<len>) >= 3', 'where int(<chk>) < 5'],
        ['where str(<start>..<chk>.<digit>) == "7"'], ['where str(<wrap>).startswith("[c")', 'where int(<chk>) >= 2']]
GEN_SYMS = ["<tag>", "<len>", "<chk>", "<wrap>"]


# further search scenarios: (generator library + grammar, generator-defined symbols, constraint sets)
PAIR = ('''
import random
CALLS = []
def g_id():
    v = "".join(random.choice("0123456789") for _ in range(3))
    CALLS.append(("<id>", [], v))
    return v
<start> ::= <req> ";" <resp>
<req> ::= <rec>
<resp> ::= <rec>
<rec> ::= <id> ":" <body>
<id> ::= <digit>{3} := g_id()
<body> ::= <digit>{2}
<digit> ::= "0" | "1" | "2" | "3" | "4" | "5" | "6" | "7" | "8" | "9"
''', ["<id>"],
        # an equality between two occurrences of one symbol, spanning a generated field: its repair copies a whole record
        [['where <req>.<rec> == <resp>.<rec>'], ['where <req>.<rec> == <resp>.<rec>', 'where int(<body>) > 40'],
         ['where str(<req>..<body>) == str(<resp>..<body>)'], ['where int(<req>..<body>) < int(<resp>..<body>)']])
PARTIAL = ('''
CALLS = []
def g_len(x):
    v = str(len(str(x)))
    CALLS.append(("<len>", [str(x)], v))
    return v
<start> ::= <body> ":" <len> ":" <tail>
<body> ::= <ch>{1,12}
<ch> ::= "a" | "b" | "c"
<len> ::= <digit> := g_len(<body>)
<tail> ::= <digit>{0,2}
<digit> ::= "0" | "1" | "2" | "3" | "4" | "5" | "6" | "7" | "8" | "9"
''', ["<len>"],
           # the generator is partial for its rule: a body of ten or more characters has no one-digit length
           [['where str(<body>).count("a") >= 3'], ['where len(str(<body>)) >= 7'], ['where str(<body>).count("b") >= 2', 'where len(str(<tail>)) == 1']])


def fields_of(tree, syms=None):
    from fandango.language.symbols import NonTerminal
    out = []
    for sym in (syms or GEN_SYMS):
        for n in tree.find_all_trees(NonTerminal(sym)):
            # only fields that sit in the tree itself (sources hold argument trees, not fields of the output)
            cur, inside_source = n, False
            while cur.parent is not None:
                if any(cur is s for s in cur.parent.sources):
                    inside_source = True
                    break
                cur = cur.parent
            if inside_source or cur is not tree:
                continue
            out.append({"sym": sym, "text": [ord(c) for c in str(n)], "args": [[ord(c) for c in str(s)] for s in n.sources]})
    return out


def _search(args):
    from harness.fan import make, normalise, quiet
    from harness.search_driver import operator_probes
    cons, seed, tid = args[:3]
    scen = args[3] if len(args) > 3 else None
    quiet()
    normalise(seed)
    spec = (LIB + SEARCH_GRAMMAR if scen is None else scen[0]) + "\n".join(cons) + "\n"
    syms = None if scen is None else scen[1]
    f = make(spec)
    calls = f.grammar._global_variables["CALLS"]
    events = []
    idx = [0]
    sent = [0]

    def flush():
        new = calls[sent[0]:]
        sent[0] = len(calls)
        if new:
            events.append({"ev": "C", "tid": tid, "calls": [{"sym": s, "args": [[ord(c) for c in a] for a in ar], "ret": [ord(c) for c in r]}
                                                            for s, ar, r in new]})

    def observe(tree, label):
        flush()
        events.append({"ev": "F", "tid": tid, "idx": idx[0], "fields": fields_of(tree, syms), "label": label, "text": str(tree)})
        idx[0] += 1

    def sink(kind, ins, outs):
        if kind.startswith("fuzz:"):
            return
        for o in outs:
            if o is not None:
                observe(o, kind)
    exc = None
    with operator_probes(sink):
        try:
            f.fuzz(desired_solutions=8, max_generations=10, population_size=12, random_seed=seed, max_nodes=60,
                   solution_callback=lambda t, i: observe(t, "emitted"))
        except Exception as e:  # noqa
            exc = type(e).__name__
    if f.fandango is not None:
        for t in f.fandango.population:
            observe(t, "population")
    return events, exc


def _replay_chunk(hists):
    """spec -> code: argument replacements through DerivationTree.replace, compared with the spec state."""
    from fandango.language.symbols import NonTerminal
    from harness.fan import make, normalise, quiet
    quiet()
    normalise(0)
    f = make(LIB + REPLAY_GRAMMAR)
    g = f.grammar
    viol = []
    steps = 0

    def body_text(n):
        return ("abc" * 4)[:n]

    def field(tree, sym):
        return [n for n in tree.find_direct_trees(NonTerminal(sym))][0]

    def src(node, sym):
        return [s for s in node.sources if s.symbol == NonTerminal(sym)][0]
    for h in hists:
        init = h[0]
        # build the initial tree with the recorded arguments of the model state
        tree = None
        while tree is None:
            try:
                tree = g.fuzz("<start>", 40)
            except Exception:  # noqa  (a body of ten characters has no one-digit length: generation raises, draw again)
                pass
        tree = tree.replace(g, src(field(tree, "<chk>"), "<p>"), g.parse(str(init["p"]), "<p>"))
        tree = tree.replace(g, src(field(tree, "<chk>"), "<q>"), g.parse(str(init["q"]), "<q>"))
        tree = tree.replace(g, src(field(tree, "<len>"), "<body>"), g.parse(body_text(init["body"]), "<body>"))
        tag0 = str(field(tree, "<tag>"))
        for k, st in enumerate(h):
            steps += 1
            if st["op"] == "set_arg":
                fld, sym = ("<len>", "<body>") if st["arg"] == "body" else ("<chk>", "<" + st["arg"] + ">")
                new = g.parse(body_text(st["v"]), "<body>") if st["arg"] == "body" else g.parse(str(st["v"]), sym)
                tree = tree.replace(g, src(field(tree, fld), sym), new)
            elif st["op"] == "set_arg_refused":
                try:
                    tree = tree.replace(g, src(field(tree, "<len>"), "<body>"), g.parse(body_text(st["v"]), "<body>"))
                except Exception:  # noqa
                    pass    # refused by raising: the tree stays as it was
            elif st["op"] == "edit_generated":
                fld = "<" + st["arg"] + ">"
                node = field(tree, fld)
                target = node.children[0]
                if fld == "<tag>":
                    other = "a" if str(target) != "a" else "b"
                    newsub = g.parse(other, "<ch>")
                else:
                    newsub = g.parse(str(st["v"] % 10), "<digit>")
                try:
                    tree = tree.replace(g, target, newsub)
                except Exception:
                    pass    # refusing by raising leaves the tree as it was (operators fail, nothing is altered)
            chk, ln = field(tree, "<chk>"), field(tree, "<len>")
            got = {"p": str(src(chk, "<p>")), "q": str(src(chk, "<q>")), "body": len(str(src(ln, "<body>"))), "chk": str(chk), "len": str(ln),
                   "tag": str(field(tree, "<tag>"))}
            exp = {"p": str(st["p"]), "q": str(st["q"]), "body": st["body"], "chk": str(st["chk"]), "len": str(st["len"]), "tag": tag0}
            if got != exp:
                ops = " ; ".join("%s(%s,%s)" % (x["op"], x["arg"], x["v"]) for x in h[:k + 1])
                viol.append(("hist:" + ops, "history %s: fields/arguments are %s, the specification says %s" % (ops, got, exp), {"history": h[:k + 1]}))
                break
    return steps, viol


# the replay grammar makes g_len partial for its rule: <len> is ONE digit, bodies may have ten characters
REPLAY_GRAMMAR = GRAMMAR.replace("<body> ::= <ch>{1,5}", "<body> ::= <ch>{1,10}").replace("<len> ::= <digit>+ := g_len(<body>)", "<len> ::= <digit> := g_len(<body>)")
NESTED_RANDOM = LIB + GRAMMAR.replace("g_wrap(<ktag>)", "g_wrap(<tag>)")
# searches run on the grammar without a generator-defined ARGUMENT: copies re-derive the argument trees of a field, and a
# re-derived argument that is itself generator-defined is neither re-drawn consistently nor protected (finding F31, two
# pinned witnesses below); <wrap> takes the plain symbol <body> instead
SEARCH_GRAMMAR = GRAMMAR.replace("g_wrap(<ktag>)", "g_wrap(<body>)")


def f31_witness():
    """Pinned witness: a generator whose argument is itself defined by a RANDOM generator.  Replacing the field by
    another tree's field (what crossover does) re-draws the recorded argument and keeps the text."""
    from fandango.language.symbols import NonTerminal
    from harness.fan import make, normalise, quiet
    quiet()
    normalise(3)
    f = make(NESTED_RANDOM)
    g = f.grammar
    t1, t2 = g.fuzz("<start>", 40), g.fuzz("<start>", 40)
    w1 = t1.find_direct_trees(NonTerminal("<wrap>"))[0]
    w2 = t2.find_direct_trees(NonTerminal("<wrap>"))[0]
    bad = 0
    for _ in range(30):
        r = t1.replace(g, w1, w2)
        w = r.find_direct_trees(NonTerminal("<wrap>"))[0]
        if str(w) != "[" + str(w.sources[0]) + "]":
            bad += 1
    return bad


def f31b_witness():
    """Second pinned witness of F31: the inner generator is constant (g_const always returns 'cc').  After a copy
    (replace of the field by another tree's field) the re-derived argument tree is no longer protected: the operators'
    own node search finds its <ch> nodes, and replacing one re-generates the field from an argument text ('cb') that
    g_const never returned."""
    from fandango.language.symbols import NonTerminal
    from harness.fan import make, normalise, quiet
    quiet()
    normalise(3)
    f = make(LIB + GRAMMAR)
    g = f.grammar
    t1, t2 = g.fuzz("<start>", 40), g.fuzz("<start>", 40)
    w1 = t1.find_direct_trees(NonTerminal("<wrap>"))[0]
    w2 = t2.find_direct_trees(NonTerminal("<wrap>"))[0]
    before = len(w1.sources[0].find_all_nodes(NonTerminal("<ch>")))
    r = t1.replace(g, w1, w2)
    w = r.find_direct_trees(NonTerminal("<wrap>"))[0]
    editable = w.sources[0].find_all_nodes(NonTerminal("<ch>")) if w.sources else []
    if before != 0 or not editable:
        return None
    r2 = r.replace(g, editable[-1], g.parse("b", "<ch>"))
    w3 = r2.find_direct_trees(NonTerminal("<wrap>"))[0]
    return str(w3) if str(w3) != "[cc]" else None


EQ_ON_FIELD = LIB + """<start> ::= <tag> "." <ch>
<tag> ::= <ch>+ := g_fixed()
<ch> ::= "a" | "b" | "c"
def g_fixed():
    CALLS.append(("<tag>", [], "aa"))
    return "aa"
where str(<tag>) == "b"
"""


def f32_witness():
    """Pinned witness: an equality constraint on a generator-defined symbol; the repair overwrites the node."""
    from harness.fan import make, normalise, quiet
    quiet()
    normalise(0)
    f = make(EQ_ON_FIELD)
    try:
        sols = f.fuzz(desired_solutions=2, max_generations=6, population_size=6, random_seed=0)
    except Exception:
        return []
    return [str(t) for t in sols if not str(t).startswith("aa.")]


BAD_FIT = LIB + '''<start> ::= <n> "."
<n> ::= <digit>+ := bad()
<digit> ::= "0" | "1"
def bad():
    return "12x"
'''


def run(tier, seed):
    rep = Report(PROP, tier, seed, "model_checking")
    r = run_tlc("Generators", "Generators_any", workers=1, timeout=300)
    if r.violated:
        raise common.Machinery("Generators model violates %s" % r.violated)
    rep.tlc(r, "Generators_any")
    r2 = run_tlc("Generators", "Generators_last", workers=1, timeout=300)
    if r2.violated != "FieldIsGenerated":
        raise common.Machinery("sanity config should violate FieldIsGenerated")
    r = run_tlc("Generators", "Generators_emit", workers=1, timeout=900)
    hists = r.printed("HIST")
    rep.tlc(r, "Generators_emit")
    if len(hists) < 1000:
        raise common.Machinery("only %d histories" % len(hists))
    rnd = random.Random(seed)
    if tier == "quick":
        hists = [h for h in hists if rnd.random() < 0.025]
    steps = 0
    for n, viol in pmap(_replay_chunk, [hists[i::16] for i in range(16)]):
        steps += n
        for v in viol:
            rep.violation(*v)
    seeds = [seed, seed + 1] if tier == "quick" else list(range(seed, seed + 12))
    jobs = []
    tid = 0
    for cons in CONS:
        for s in seeds:
            tid += 1
            jobs.append((cons, s, tid))
    for scen in (PAIR,):
        for cons in scen[2]:
            for s in seeds + [seed + 100, seed + 101]:
                tid += 1
                jobs.append((cons, s, tid, scen))
    events = []
    for evs, exc in pmap(_search, jobs):
        events.extend(evs)
    path = os.path.join(subdir("c16"), "gentrace.ndjson")
    labels = {}
    with open(path, "w") as fh:
        for e in events:
            if e["ev"] == "F":
                labels[(e["tid"], e["idx"])] = (e.pop("label"), e.pop("text"))
            fh.write(json.dumps(e) + "\n")
    r = run_tlc("Trace_Gen", "Trace_Gen", workers=1, env={"TRACE_FILE": path}, timeout=3000, heap="8g")
    rep.tlc(r, "Trace_Gen")
    cl = [l for l in r.out.splitlines() if l.startswith('<<"CONSUMED"')]
    if not cl or ("%d," % len(events)) not in cl[0]:
        raise common.Machinery("Trace_Gen did not consume the trace: %s" % cl)
    bad = r.printed("BAD")
    seen = set()
    for b in (bad[0] if bad else []):
        cons, s = jobs[b["tid"] - 1][:2]
        label, text = labels[(b["tid"], b["idx"])]
        key = "field:%s:%s:%s" % (cons, label, b["clause"])
        if key in seen:
            continue
        seen.add(key)
        rep.violation(key, "constraints %s, seed %d: %s tree %r: generator field #%d: %s" % (cons, s, label, text, b["k"], b["clause"]),
                      {"constraints": cons, "seed": s, "tree": text, "label": label, "clause": b["clause"]})
    if f31_witness():
        rep.violation("witness:F31:nested-random-generator", "<wrap> := g_wrap(<tag>), <tag> := random choice: replacing <wrap> by another "
                      "tree's <wrap> leaves text and recorded argument inconsistent", {"spec": NESTED_RANDOM})
    wb = f31b_witness()
    if wb:
        rep.violation("witness:F31:nested-constant-generator", "<wrap> := g_wrap(<ktag>), <ktag> := g_const() (always 'cc'): after replace(wrap1 := "
                      "wrap2) the <ch> nodes of the re-derived argument are editable; replacing one yields the field %r" % wb, {"spec": LIB + GRAMMAR})
    w = f32_witness()
    if w:
        rep.violation("witness:F32:equality-repair-overwrites-generated-node", "<tag> := g_fixed() always returns 'aa'; with `where str(<tag>) == \"b\"` "
                      "the search emits %r: the equality repair replaced the generator-defined node itself" % w, {"spec": EQ_ON_FIELD})
    # a generator value that does not fit the rule must raise
    from harness.fan import make, quiet
    quiet()
    try:
        sols = make(BAD_FIT).fuzz(desired_solutions=1, max_generations=2, population_size=2, random_seed=0)
        rep.violation("badfit:12x", "generator returned '12x' for <n> ::= <digit>+ (digits 0/1) and fuzz() produced %r instead of raising"
                      % [str(t) for t in sols], {"spec": BAD_FIT})
    except Exception:
        pass
    nf = sum(len(e["fields"]) for e in events if e["ev"] == "F")
    if nf < 500:
        raise common.Machinery("only %d generator fields observed" % nf)
    rep.add(traces_validated_against_impl=len(hists) + len(jobs), histories_replayed=len(hists), replayed_steps=steps,
            generator_fields_judged=nf, search_runs=len(jobs),
            rule="histories of 3 argument replacements / edits of generated text from 27 initial states; every operator result, "
                 "population member and solution of %d searches (constant, random, dependent, two-argument and nested generators)" % len(jobs))
    rep.sample({"grammar": GRAMMAR, "constraints": CONS[3]})
    rep.assumptions += ["generator arguments are the sources recorded with the node, never like-named siblings",
                        "the read-only flag is not an observation; the text is"]
    return rep.finish()


def replay(path):
    d = json.load(open(path))
    print(json.dumps(d, indent=1, default=str)[:4000])
    return 0
