"""C02 - emitted solutions satisfy every hard constraint.

code -> spec: real search runs (production mode: exceptions are logged, not raised) on specs whose `where` clauses
and extra (command-line) constraints come from the constraint IR generator - including atoms that raise for some
trees - and on specs with computed repetitions.  Every emitted tree is re-judged from scratch by TLC:
Constraint.Sat for every constraint (Trace_Constraint, event "E": a raising or violated constraint is a violation)
and FanIR.Valid with the computed counts enforced (Trace_Tree).  The evaluator model (Evaluator.tla, invariant
EmittedSat) is model-checked as the design-level statement.
"""
import json
import os
import random

from harness import common, gen
from harness.cgen import CGen
from harness.common import Report, run_tlc, subdir, pmap
from harness.checks.c07 import grammars
from harness.treetrace import TreeTrace, ir_shape, ir_text

PROP = "C02"


def _st(op, sym=""):
    return {"op": op, "sym": sym, "i": 0, "j": 0, "hasj": False}


# quantifier bodies that relate the bound element to a symbol the quantifier does not bind
BOUND_VS_FREE = [
    ('<start> ::= <max> ":" <item> ("," <item>)*\n<max> ::= <d>\n<item> ::= <d>\n<d> ::= "0" | "1" | "2" | "3" | "4" | "5" | "6" | "7" | "8" | "9"\n'
     'where forall <x> in <item>: int(<x>) <= int(<max>)\n',
     [{"f": "forall", "var": "<x>", "sel": [_st("rule", "<item>")],
       "body": {"f": "cmp2", "kind": "intle", "sel": [_st("rule", "<x>")], "sel2": [_st("rule", "<max>")]}}]),
    ('<start> ::= <k> "=" <v> (";" <v>)*\n<k> ::= "a" | "b" | "ab"\n<v> ::= "a" | "b" | "ab" | "ba"\n'
     'where exists <y> in <v>: str(<y>) == str(<k>)\nwhere forall <z> in <v>: str(<z>) != "ba"\n',
     [{"f": "exists", "var": "<y>", "sel": [_st("rule", "<v>")],
       "body": {"f": "cmp2", "kind": "streq", "sel": [_st("rule", "<y>")], "sel2": [_st("rule", "<k>")]}},
      {"f": "forall", "var": "<z>", "sel": [_st("rule", "<v>")],
       "body": {"f": "atom", "kind": "strne", "lit": [98, 97], "k": 0, "sel": [_st("rule", "<z>")]}}]),
]


def _search(args):
    from harness.fan import tree_ir
    from harness.search_driver import record_run
    spec, seed, extra, settings = args
    from harness.parsepipe import with_timeout, Timeout
    try:
        f, events, sols, exc = with_timeout(lambda: record_run(spec, seed, extra=extra, **settings), 40.0)
    except Timeout:
        # a search that does not finish within the budget (typically an unsatisfiable generated constraint, on which
        # the individuals keep growing) emits nothing that could be judged
        return {"reject": "timeout", "sols": []}
    except Exception as e:  # noqa
        return {"reject": "%s: %s" % (type(e).__name__, str(e)[:100]), "sols": []}
    return {"reject": None, "sols": [tree_ir(t) for t in sols], "exc": exc}


def run(tier, seed):
    rep = Report(PROP, tier, seed, "model_checking")
    r = run_tlc("MC_Evaluator", "MC_Evaluator_ok", workers=4, timeout=300)
    if r.violated:
        raise common.Machinery("Evaluator model violates %s" % r.violated)
    rep.tlc(r, "MC_Evaluator_ok")
    gs, lits, nts = grammars()
    rnd = random.Random(seed)
    nspec = 60 if tier == "quick" else 900
    jobs, plan = [], []
    for k in range(nspec):
        gid = rnd.choice(sorted(gs))
        cg = CGen(rnd, nts[gid], lits[gid])
        cons = [cg.rphi(1) for _ in range(rnd.randint(1, 2))]
        extra = [cg.rphi(0)] if rnd.random() < 0.4 else []
        spec = gen.render(gs[gid], ["where " + c[1] for c in cons])
        settings = {"desired": 6, "generations": rnd.choice([6, 12]), "population": rnd.choice([8, 20])}
        jobs.append((spec, seed + k, [c[1] for c in extra] or None, settings))
        plan.append(("constraints", gid, cons + extra, spec))
    for spec, phis in BOUND_VS_FREE:
        for k in range(6 if tier == "quick" else 60):
            jobs.append((spec, seed + 9000 + k, None, {"desired": 12, "generations": 10, "population": rnd.choice([6, 12])}))
            plan.append(("constraints", 0, [(p_, "(bound-vs-free constraint %d)" % i) for i, p_ in enumerate(phis)], spec))
    ncomp = 30 if tier == "quick" else 400
    for k in range(ncomp):
        g = gen.rand_grammar(rnd, flavour="text", computed=rnd.choice([1, 2, 3, 4, 4, 4]), classes=gen.SMALL_CLASSES)
        cons = gen.rand_constraints(rnd, g)
        spec = gen.render(g, cons)
        jobs.append((spec, seed + 5000 + k, None, {"desired": 8, "generations": 10, "population": 10}))
        plan.append(("computed", g, cons, spec))
    # a count field that may be 0 (the repetition is then absent) and must equal a second field: the repairs of the two
    # constraints (repetition bound, equality) work on the same node
    L = gen.lit_text
    zero = {"start": "<start>", "flavour": "text", "computed": 4, "rules": {
        "<start>": gen.nt("<rec>"), "<len>": gen.alt(L("0"), L("1"), L("2"), L("3")), "<trail>": gen.alt(L("0"), L("1"), L("2"), L("3")),
        "<item>": gen.alt(L("p"), L("q")),
        "<rec>": gen.cat(gen.nt("<len>"), L(":"), gen.rep(gen.nt("<item>"), 0, gen.INF, ref="<len>"), L(";"), gen.nt("<trail>"))}}
    for k in range(10 if tier == "quick" else 120):
        cons = [['where str(<len>) == str(<trail>)'], ['where str(<len>) == str(<trail>)', 'where int(<trail>) >= 1']][k % 2]
        spec = gen.render(zero, cons)
        jobs.append((spec, seed + 7000 + k, None, {"desired": 10, "generations": 10, "population": 10}))
        plan.append(("computed", zero, cons, spec))
    results = pmap(_search, jobs)
    path = os.path.join(subdir("c02"), "emitted.ndjson")
    tt = TreeTrace("c02")
    meta = {}
    tid = nem = nrej = 0
    with open(path, "w") as fh:
        for (kind, a, cons, spec), res in zip(plan, results):
            if res["reject"]:
                nrej += 1
                continue
            if kind == "constraints":
                for t in res["sols"]:
                    tid += 1
                    nem += 1
                    meta[tid] = (spec, [c[1] for c in cons], t)
                    fh.write(json.dumps({"ev": "E", "tid": tid, "idx": 0, "phis": [c[0] for c in cons], "tree": t}) + "\n")
            else:
                tt.grammar(100 + len(tt.meta), a)
                gid = 100 + len(tt.meta)
                tt.grammar(gid, a)
                tt.new_trace({"spec": spec})
                for t in res["sols"]:
                    nem += 1
                    tt.tree(gid, a["start"], t, "emitted")
    if nrej > len(jobs) // 3:
        raise common.Machinery("%d of %d specs rejected by the reader" % (nrej, len(jobs)))
    if tid < 40:
        raise common.Machinery("only %d solutions emitted on constraint specs (vacuous)" % tid)
    r = run_tlc("Trace_Constraint", "Trace_Constraint", workers=1, env={"TRACE_FILE": path}, timeout=3000, heap="8g")
    rep.tlc(r, "Trace_Constraint(E)")
    cl = [l for l in r.out.splitlines() if l.startswith('<<"CONSUMED"')]
    if not cl or ("%d," % tid) not in cl[0]:
        raise common.Machinery("Trace_Constraint did not consume the trace: %s" % cl)
    bad = r.printed("BAD")
    for b in (bad[0] if bad else []):
        spec, texts, t = meta[b["tid"]]
        rep.violation("emitted:%s:%s:%s" % (spec, ir_text(t), texts[b["k"] - 1]),
                      "solution %r emitted for\n%s(+ extra constraints) does not satisfy `%s`" % (ir_text(t), spec, texts[b["k"] - 1]),
                      {"spec": spec, "constraints": texts, "tree": t})
    for _tid, idx, clause, label, ir, info in tt.judge(rep):
        rep.violation("emitted-tree:%s:%s" % (info["spec"], ir_shape(ir)),
                      "solution %r emitted for\n%sviolates a computed repetition bound / the grammar: %s" % (ir_text(ir), info["spec"], clause),
                      {"spec": info["spec"], "tree": ir, "clause": clause})
    rep.add(traces_validated_against_impl=len(jobs) - nrej, emitted_judged=nem, specs_rejected_by_reader=nrej,
            rule="every solution emitted by %d searches with generated where/extra constraints (Sat re-evaluated by TLC) and "
                 "%d searches with computed repetitions (Valid with the computed counts)" % (nspec, ncomp))
    rep.sample({"spec": plan[0][3], "extra": jobs[0][2]})
    rep.assumptions += ["only constraints expressible in the constraint IR are judged; soft constraints and best-effort padding are not requested"]
    return rep.finish()


def replay(path):
    d = json.load(open(path))
    print(json.dumps(d, indent=1, default=str)[:4000])
    return 0
