"""C08 - Python embedded in a spec keeps its Python meaning (translation validation).

PyAst.tla defines the program space; TLC enumerates exhaustively every constructor in every operator / field-presence
variant with atomic children (D1) and every expression slot of every constructor filled with every D1 expression (D2:
precedence, parenthesisation, chained comparisons, starred elements, parameter kinds, f-string parts) - about 8.9k
expression programs and 820 statement programs.  Each is rendered as Python text, canonicalised by CPython's own
ast.unparse, embedded (a) as helper code and (b) - expressions - inside a `where (...)` clause, pushed through
Fandango's front end, and the code Fandango would run is compared with CPython's reading of the text by ast.dump
(adjacent string constants folded).  Outcome relation: identical, or rejected with an error; "accepted and different"
(or accepted and not parseable by CPython) is the violation.  A harvested corpus (statements of CPython's own Lib/*.py)
goes through the same oracle.
"""
import ast
import glob
import json
import os
import random
import sysconfig

from harness import common
from harness.common import Report, run_tlc, subdir, pmap

PROP = "C08"


class Fold(ast.NodeTransformer):
    """'a' 'b' and f'ab' with constant parts only denote the same value: fold them before comparing."""

    def visit_JoinedStr(self, node):
        self.generic_visit(node)
        if all(isinstance(v, ast.Constant) and isinstance(v.value, str) for v in node.values):
            return ast.copy_location(ast.Constant("".join(v.value for v in node.values)), node)
        vals = []
        for v in node.values:
            if vals and isinstance(v, ast.Constant) and isinstance(vals[-1], ast.Constant):
                vals[-1] = ast.Constant(vals[-1].value + v.value)
            else:
                vals.append(v)
        node.values = vals
        return node


    def visit_Constant(self, node):
        node.kind = None        # the u'' prefix is recorded by CPython's parser but means nothing
        return node


def norm_dump(src, mode="exec"):
    return ast.dump(Fold().visit(ast.parse(src, mode=mode)))


def variants_in(n):
    out = {"%s:%s" % (n["c"], n["a"])}
    for x in n["xs"]:
        out |= variants_in(x)
    return out


def _translate_chunk(args):
    progs, use_python_reader = args
    import logging
    import sys
    logging.disable(logging.CRITICAL)
    sys.stderr = open(os.devnull, "w")
    from fandango import Fandango
    from fandango.language.parse.parse_tree import parse_tree
    from fandango.language.parse.spec import CachedFandangoSpec
    import fandango
    from harness.fan import make
    if use_python_reader:
        Fandango.parser = "python"
    out = []
    for pid, kind, src in progs:
        rec = {"pid": pid, "kind": kind, "src": src}
        try:
            ref = norm_dump(src)
        except Exception as e:  # noqa
            rec["skip"] = "not python: %s" % e
            out.append(rec)
            continue
        if kind in ("stmt", "expr-stmt"):
            try:
                tree = parse_tree("<s>", src)
                code = CachedFandangoSpec(tree, src, filename="<s>").code_text
            except BaseException as e:  # noqa
                rec["outcome"] = "rejected:" + type(e).__name__
                out.append(rec)
                continue
            rec["out"] = code
            try:
                got = norm_dump(code)
            except Exception:
                rec["outcome"] = "accepted-not-python"
                out.append(rec)
                continue
            rec["outcome"] = "identical" if got == ref else "accepted-and-different"
        else:  # constraint position: where (EXPR)
            try:
                f = make('<start> ::= "a"\nwhere (%s)\n' % src)
                cs = f.constraints
                ex = getattr(cs[0], "expression", None)
                if len(cs) != 1 or ex is None:
                    rec["outcome"] = "skipped-not-an-expression-constraint"
                    out.append(rec)
                    continue
            except BaseException as e:  # noqa
                rec["outcome"] = "rejected:" + type(e).__name__
                out.append(rec)
                continue
            rec["out"] = ex
            try:
                got = norm_dump(ex, "eval")
                rec["outcome"] = "identical" if got == norm_dump(src, "eval") else "accepted-and-different"
            except Exception:
                rec["outcome"] = "accepted-not-python"
        out.append(rec)
    Fandango.parser = "auto"
    return out


def harvest(rnd, n):
    """statement-by-statement slices of CPython's own standard library"""
    lib = sysconfig.get_paths()["stdlib"]
    files = sorted(glob.glob(os.path.join(lib, "*.py")))
    rnd.shuffle(files)
    out = []
    for f in files:
        try:
            tree = ast.parse(open(f, encoding="utf-8").read())
        except Exception:
            continue
        units = []
        for node in tree.body:
            units.append(node)
            if isinstance(node, ast.ClassDef):
                units.extend(x for x in node.body if isinstance(x, (ast.FunctionDef, ast.AsyncFunctionDef)))
        for node in units:
            try:
                src = ast.unparse(node) + "\n"
            except Exception:
                continue
            # f-strings with literal text are a recorded finding (F24/F35): the harvested corpus is taken without them
            if len(src) < 1500 and not any(isinstance(x, ast.JoinedStr) for x in ast.walk(node)):
                out.append((os.path.basename(f), src))
        if len(out) >= n * 3:
            break
    rnd.shuffle(out)
    return out[:n]


def run(tier, seed):
    rep = Report(PROP, tier, seed, "translation_validation")
    from harness import pyast
    pe = os.path.join(subdir("c08"), "expr.ndjson")
    ps = os.path.join(subdir("c08"), "stmt.ndjson")
    r = run_tlc("PyAst", "PyAst", workers=1, env={"OUT_EXPR": pe, "OUT_STMT": ps}, timeout=1800, heap="8g")
    rep.tlc(r, "PyAst(D1 + D2)")
    exprs = [json.loads(l) for l in open(pe)]
    stmts = [json.loads(l) for l in open(ps)]
    if len(exprs) < 5000 or len(stmts) < 500:
        raise common.Machinery("program space too small: %d expressions, %d statements" % (len(exprs), len(stmts)))
    rnd = random.Random(seed)
    known_variants = set()
    for f in rep.findings:
        if f.get("status") == "known":
            known_variants |= set(f.get("variants", []))

    def is_d1(n):
        return all(x["c"] in ("Name", "Const") for x in n["xs"])
    progs = []
    meta = {}
    skipped_known = 0

    def add(kind, src, node, tag):
        pid = len(progs)
        progs.append((pid, kind, src))
        meta[pid] = (node, tag)
    for n in exprs:
        try:
            src = pyast.expr(n)
            canon, _ = pyast.canonical(src, "eval")
        except Exception:
            continue
        vs = variants_in(n)
        d1 = is_d1(n)
        if not d1 and (vs & known_variants or (n["c"] == "JoinedStr" and any(
                x["c"] in ("Dict", "Set", "DictComp", "SetComp", "JoinedStr", "Lambda") or (x["c"] == "Const" and x["a"][:1] in "'b") for x in n["xs"]))):
            skipped_known += 1
            continue     # deeper programs are generated without the variants already recorded as findings (incl. F36)
        if not d1 and tier == "quick" and rnd.random() > 0.22:
            continue
        add("expr-stmt", "x = %s\n" % canon, n, "D1" if d1 else "D2")
        if d1 or rnd.random() < 0.3:
            add("expr-where", canon, n, "D1w" if d1 else "D2w")
    for n in stmts:
        try:
            src = pyast.stmt(n)
            canon, _ = pyast.canonical(src, "exec")
        except Exception:
            continue
        vs = variants_in(n)
        d1 = is_d1(n)
        if not d1 and vs & known_variants:
            skipped_known += 1
            continue
        add("stmt", canon + "\n", n, "D1" if d1 else "D2")
    # raw (not canonicalised) programs: spellings that CPython's unparse never produces
    from harness.rawprogs import RAW
    for raw in RAW:
        add("stmt", raw + "\n", {"c": "Raw", "a": raw, "xs": []}, "raw")
    nharv = 150 if tier == "quick" else 3000
    for fname, src in harvest(rnd, nharv):
        add("stmt", src, {"c": "Harvested", "a": fname, "xs": []}, "harvest")
    chunks = [(progs[i::16], False) for i in range(16)]
    # the pure-Python front end on a sample
    sample = rnd.sample(progs, min(len(progs), 120 if tier == "quick" else 1500))
    chunks += [(sample[i::4], True) for i in range(4)]
    results = []
    for ch in pmap(_translate_chunk, chunks):
        results.extend(ch)
    counts = {}
    seen = set()
    for rec in results:
        o = rec.get("outcome", "skip")
        counts[o.split(":")[0]] = counts.get(o.split(":")[0], 0) + 1
        if o in ("accepted-and-different", "accepted-not-python"):
            node, tag = meta[rec["pid"]]
            if node["c"] == "Harvested":
                key = "harvest:%s" % rec["src"].strip()[:200]
            elif node["c"] == "Raw":
                key = "raw:%s" % node["a"]
            else:
                pos = "where" if rec["kind"] == "expr-where" else "code"
                if tag.startswith("D1"):
                    key = "variant:%s:%s:%s" % (node["c"], node["a"], pos)
                else:
                    key = "program:%s:%s" % (pos, rec["src"].strip())
            if key in seen:
                continue
            seen.add(key)
            rep.violation(key, "%s position: `%s` is accepted and becomes `%s` (%s)" % ("constraint" if rec["kind"] == "expr-where" else "code",
                          rec["src"].strip()[:300], (rec.get("out") or "").strip()[:300], o), {"src": rec["src"], "out": rec.get("out"), "outcome": o})
    # pinned: precedence of `not` at the top of a constraint
    from harness.fan import make, quiet
    quiet()
    try:
        f = make('<start> ::= <d>\n<d> ::= "7" | "8"\nwhere not str(<d>) == \'7\'\n')
        t7 = f.grammar.parse("7")
        t8 = f.grammar.parse("8")
        v7 = all(c.check(t7) for c in f.constraints)
        v8 = all(c.check(t8) for c in f.constraints)
        if (v7, v8) != (False, True):      # Python: not (str(d) == '7')
            rep.violation("raw-where:not str(<d>) == '7'", "`where not str(<d>) == '7'` accepts '7': %s, accepts '8': %s (Python's reading: False, True)" % (v7, v8), {})
    except Exception:
        pass
    disagreements = len(rep.violations) + sum(len(set(v[1])) for v in rep.known_hits.values())
    rep.add(programs=len(results), disagreements_checked=disagreements, outcomes=counts, enumerated_expressions=len(exprs), enumerated_statements=len(stmts),
            deeper_programs_skipped_for_known_variants=skipped_known, harvested=nharv, exhaustive=(tier == "thorough"),
            rule="D1: every constructor/variant with atomic children (code and constraint position); D2: every expression slot x every D1 "
                 "expression (%s); harvested stdlib statements" % ("all" if tier == "thorough" else "22% sample"))
    rep.sample({"src": progs[len(progs) // 3][2], "kind": progs[len(progs) // 3][1]})
    rep.assumptions += ["CPython's ast is the meaning of Python text; any raised exception counts as 'rejected with an error'",
                        "adjacent string constants / constant-only f-strings are folded before comparing"]
    if counts.get("identical", 0) < 1000:
        raise common.Machinery("only %d programs translated identically (vacuous?) %s" % (counts.get("identical", 0), counts))
    return rep.finish()


def replay(path):
    d = json.load(open(path))
    print(json.dumps(d, indent=1, default=str)[:4000])
    return 0
