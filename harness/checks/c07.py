"""C07 - constraint verdicts follow the documented selector / quantifier semantics.

Constraint.tla states the meaning of the constraint sub-language (Sat).  spec -> code: the trees are the derivation
trees TLC enumerates with Lang.tla for three grammars (every tree up to the bound) plus larger fuzzed trees;
constraints come from a seeded generator of constraint IR (selectors with . .. [i] [i:j], atoms that may raise,
counts, groups, formula-level and/or, nested forall/exists); each constraint is rendered to .fan text, built by
Fandango's own front end and check()ed eagerly and lazily in production mode.  code -> spec: every
(constraint, tree, verdict) triple is judged by TLC (Trace_Constraint.tla).
"""
import json
import os
import random

from harness import common, gen
from harness.cgen import CGen
from harness.common import Report, run_tlc, subdir, pmap
from harness.langenum import enumerate_languages

PROP = "C07"

T = gen.lit_text


def grammars():
    g1 = {"start": "<start>", "flavour": "text", "rules": {
        "<start>": gen.cat(gen.nt("<e>"), T(";"), gen.nt("<e>")),
        "<e>": gen.alt(gen.nt("<t>"), gen.cat(gen.nt("<t>"), T("+"), gen.nt("<e>")), gen.cat(T("("), gen.nt("<e>"), T(")"))),
        "<t>": gen.alt(gen.nt("<d>"), gen.cat(gen.nt("<d>"), gen.nt("<t>")), T("x")),
        "<d>": gen.alt(T("0"), T("1"), T("7"))}}
    g2 = {"start": "<start>", "flavour": "text", "rules": {
        "<start>": gen.rep(gen.nt("<rec>"), 1, 3),
        "<rec>": gen.cat(gen.nt("<k>"), T("="), gen.nt("<v>"), T(";")),
        "<k>": gen.alt(T("a"), T("b"), T("ab")),
        "<v>": gen.alt(gen.rep(gen.nt("<d>"), 1, 3), T("none")),
        "<d>": gen.alt(T("0"), T("1"), T("7"))}}
    g3 = {"start": "<start>", "flavour": "text", "rules": {
        "<start>": gen.cat(T("["), gen.nt("<items>"), T("]")),
        "<items>": gen.alt(gen.nt("<item>"), gen.cat(gen.nt("<item>"), T(","), gen.nt("<items>"))),
        "<item>": gen.alt(gen.nt("<num>"), gen.cat(T("["), gen.nt("<items>"), T("]"))),
        "<num>": gen.rep(gen.nt("<d>"), 1, 2),
        "<d>": gen.alt(T("1"), T("2"))}}
    lits = {1: ["1", "x", "7", "17", "(x)"], 2: ["a", "ab", "none", "7", "17"], 3: ["1", "12", "[1]", "2"]}
    nts = {1: ["<start>", "<e>", "<t>", "<d>"], 2: ["<start>", "<rec>", "<k>", "<v>", "<d>"], 3: ["<start>", "<items>", "<item>", "<num>", "<d>"]}
    return {1: g1, 2: g2, 3: g3}, lits, nts


def _verdicts(args):
    """worker: build each constraint with the real front end and check it on every tree."""
    from harness.fan import make, quiet, build_tree, normalise
    gtext, texts, trees_ir = args
    quiet()
    normalise(0)
    trees = [build_tree(t) for t in trees_ir]
    out = []
    for text in texts:
        row = {"text": text, "got": None, "lazy": None, "reject": None}
        try:
            fe = make(gtext + "where " + text + "\n")
            fl = make(gtext + "where " + text + "\n", lazy=True)
        except Exception as e:  # noqa
            row["reject"] = "%s: %s" % (type(e).__name__, str(e)[:80])
            out.append(row)
            continue
        for key, f in (("got", fe), ("lazy", fl)):
            res = []
            for t in trees:
                try:
                    ok = all(c.check(t) for c in f.constraints)
                    res.append("T" if ok else "F")
                except Exception:
                    res.append("X")
            row[key] = res
        out.append(row)
    return out


def run(tier, seed):
    rep = Report(PROP, tier, seed, "model_checking")
    gs, lits, nts = grammars()
    mu = 6 if tier == "quick" else 7
    enum = enumerate_languages(rep, gs, mu, max_nodes=40, label="Lang(C07 grammars)")
    rnd = random.Random(seed)
    ncons = 70 if tier == "quick" else 1200
    ntrees = 40 if tier == "quick" else 120
    events = []
    meta = {}
    jobs = []
    plan = []
    from harness.fan import make, quiet, tree_ir, normalise
    quiet()
    for gid, g in gs.items():
        gtext = gen.render(g)
        trees = list(enum[gid].trees)
        if len(trees) > ntrees:
            trees = rnd.sample(trees, ntrees)
        # larger trees from the real fuzzer (only their shape matters; judged by TLC like the others)
        normalise(seed + gid)
        f0 = make(gtext)
        for k in range(10 if tier == "quick" else 40):
            trees.append(tree_ir(f0.grammar.fuzz("<start>", rnd.choice([8, 20, 40]))))
        cg = CGen(rnd, nts[gid], lits[gid])
        cons = [cg.rphi(2 if tier == "quick" else 3) for _ in range(ncons)]
        chunks = [cons[i::8] for i in range(8)]
        for ch in chunks:
            jobs.append((gtext, [c[1] for c in ch], trees))
            plan.append((gid, ch, trees))
    results = pmap(_verdicts, jobs)
    tid = 0
    rejected = 0
    ntrip = 0
    path = os.path.join(subdir("c07"), "verdicts.ndjson")
    with open(path, "w") as fh:
        for (gid, ch, trees), rows in zip(plan, results):
            ok = [(c, r) for c, r in zip(ch, rows) if r["reject"] is None]
            rejected += len(ch) - len(ok)
            if not ok:
                continue
            for ti, t in enumerate(trees):
                tid += 1
                meta[tid] = (gid, [c[1] for c, r in ok], t)
                ev = {"ev": "V", "tid": tid, "idx": ti, "phis": [c[0] for c, r in ok], "tree": t,
                      "got": [r["got"][ti] for c, r in ok], "lazy": [r["lazy"][ti] for c, r in ok]}
                ntrip += len(ok)
                fh.write(json.dumps(ev) + "\n")
    if rejected > ncons * len(gs) // 3:
        raise common.Machinery("front end rejected %d generated constraints" % rejected)
    r = run_tlc("Trace_Constraint", "Trace_Constraint", workers=1, env={"TRACE_FILE": path}, timeout=3000, heap="8g")
    rep.tlc(r, "Trace_Constraint")
    cons_line = [l for l in r.out.splitlines() if l.startswith('<<"CONSUMED"')]
    if not cons_line or ("%d," % tid) not in cons_line[0]:
        raise common.Machinery("Trace_Constraint did not consume the whole trace: %s" % cons_line)
    bad = r.printed("BAD")
    from harness.treetrace import ir_text
    seen = set()
    for b in (bad[0] if bad else []):
        gid, texts, t = meta[b["tid"]]
        text = texts[b["k"] - 1]
        key = "verdict:g%d:%s:%s" % (gid, text, b["clause"])
        if key in seen:
            continue
        seen.add(key)
        rep.violation(key, "grammar %d, constraint `%s` on tree %r: %s" % (gid, text, ir_text(t), b["clause"]),
                      {"grammar": gen.render(gs[gid]), "constraint": text, "tree": t, "clause": b["clause"]})
    rep.add(traces_validated_against_impl=ntrip, constraints=ncons * len(gs) - rejected, rejected_by_front_end=rejected,
            trees=sum(len(p[2]) for p in plan) // 8,
            rule="(constraint, tree) pairs: constraints from the seeded IR generator (depth <= %d), trees = TLC-enumerated "
                 "derivations (<= %d units) + fuzzed trees; eager and lazy verdicts" % (2 if tier == "quick" else 3, mu))
    rep.sample({"constraint": plan[0][1][0][1], "grammar": gen.render(gs[1])})
    rep.assumptions += ["`not` only inside atoms; `..` only from a step with a known, different symbol; one selector bracket per step",
                        "a selector that raises (index out of range) only has to be 'not satisfied' (False or an exception)"]
    return rep.finish()


def replay(path):
    d = json.load(open(path))
    print(json.dumps(d, indent=1, default=str)[:4000])
    return 0
