"""C15 - printing a spec and reading it back preserves its meaning (translation validation).

Programs = rule bodies and constraints.  SpecPrint.tla enumerates every rule body to depth 2 over all operators
(postfix operators over sequences / alternatives / other postfix operators, {n} {n,m} {n,}, nested alternatives)
- 3279 bodies - plus seeded deeper ones; each is rendered fully parenthesised, read by the real front end, printed
with repr(grammar), re-read, and both grammars are converted to IR.  TLC (SpecPrint.Same) decides structural
equality modulo associativity, with open bounds required to stay open; Lang.tla compares the bounded languages of
a sample.  Literals from the nasty classes (quotes, backslashes, non-ASCII, control characters, bytes, regexes with
quotes), party annotations and generators go through the same print / re-read.  Constraints: format_as_spec() is
re-read and must give the verdicts Constraint.Sat gives the original (Trace_Constraint) on TLC-enumerated trees.
"""
import json
import os
import random

from harness import common, gen
from harness.common import Report, run_tlc, subdir, pmap

PROP = "C15"

HEAD = '<a> ::= "a"\n<b> ::= "b" | "bb"\n'

LITERALS = [
    '"plain"', '"it\'s"', '"say \\"hi\\""', '"back\\\\slash"', '"tab\\there"', '"nl\\nx"', '"\\x00\\x7f"', '"é€"', '"\\u00e9"',
    '"both \' and \\""', "'single'", '""', 'b"\\x00\\xff"', 'b"by\\"te"', "b'\\x27q'", 'r"[a-z]+"', 'r"\\d{2}"', 'r"a\\"b"',
    "r'x\\'y'", 'r"[\\"\']"', 'rb"[\\x00-\\x10]"', '0', '1', '"{brace}"', '"a|b"', '"<notasym>"', '" "', '"::="',
]
KNOWN_LITERALS = {'r"[\\"\']"': "F09"}

# generated literals: every one- and two-character text over the classes named by the property (quotes, backslash,
# control characters, non-ASCII inside and outside the basic plane, characters of the spec syntax), as text, bytes
# and - for the texts that are regexes - as a regex; two literals per spec, the same text in two kinds included
CODE_POINTS = [97, 39, 34, 92, 10, 9, 0, 127, 0xe9, 0x20ac, 0x1F600, 0x10348, 123, 60, 124, 32, 46, 91, 35]
REGEX_TEXTS = [".", "a", "a+", "[ab]", "\\d", "\u00e9", "\U0001F600", "a|b", "x{2}", "\\.", "'", "\""]


def lit_src(cps, kind, wide_escape=False):
    if kind == "re":
        body = cps
        return 'r"%s"' % body if '"' not in body else "r'%s'" % body
    out = []
    for cp in cps:
        ch = chr(cp)
        if ch in '"\\':
            out.append("\\" + ch)
        elif cp == 10:
            out.append("\\n")
        elif cp == 9:
            out.append("\\t")
        elif cp < 32 or cp == 127 or (kind == "bytes" and cp > 126):
            out.append("\\x%02x" % cp)
        elif cp > 0xffff and wide_escape:
            out.append("\\U%08x" % cp)
        else:
            out.append(ch)
    return ('b"%s"' if kind == "bytes" else '"%s"') % "".join(out)


def literal_family(rnd, n):
    singles = [[c] for c in CODE_POINTS]
    doubles = [[c, d] for c in CODE_POINTS for d in CODE_POINTS]
    lits = []
    for t in singles + doubles:
        lits.append(lit_src(t, "text"))
        if any(c > 0xffff for c in t):
            lits.append(lit_src(t, "text", wide_escape=True))
        if all(c < 256 for c in t):
            lits.append(lit_src(t, "bytes"))
    regexes = [lit_src(json.loads('"%s"' % t) if t.startswith("\\u") or t.startswith("\\U") else t, "re") for t in REGEX_TEXTS]
    specs = []
    # the same text as a literal and as a regex, in both orders
    for t in REGEX_TEXTS:
        text = json.loads('"%s"' % t) if t.startswith("\\u") or t.startswith("\\U") else t
        a, b = lit_src([ord(c) for c in text], "text"), lit_src(text, "re")
        specs.append(("literal and regex with the same text %s" % a, "<start> ::= %s %s <a>\n" % (a, b) + HEAD, ""))
        specs.append(("regex and literal with the same text %s" % a, "<start> ::= %s %s <a>\n" % (b, a) + HEAD, ""))
    pool = lits + regexes
    singles_src = [lit_src(t, "text") for t in singles] + [lit_src(t, "text", True) for t in singles if t[0] > 0xffff]
    for l1 in singles_src:
        specs.append(("literal %s" % l1, "<start> ::= %s <a>\n" % l1 + HEAD, ""))
    while len(specs) < n:
        l1, l2 = rnd.choice(pool), rnd.choice(pool)
        specs.append(("literals %s %s" % (l1, l2), "<start> ::= %s <a> %s\n" % (l1, l2) + HEAD, ""))
    return specs[:max(n, len(REGEX_TEXTS) * 2 + len(singles_src))]


def sliced_family(rnd, n):
    """generated protocol specs (the family of C19), whole and sliced to each party: what is printed for a slice must read
    back as that slice"""
    from harness.checks import c19
    out = []
    # every repetition operator over a group of alternatives that slicing reduces to a single one (a sequence / one message)
    M = c19.msg
    for lo, hi in [(0, gen.INF), (1, gen.INF), (0, 1), (2, 2), (1, 3), (2, gen.INF)]:
        for body in (gen.alt(gen.cat(M("A", "B", "m1"), M("A", "B", "m2")), M("B", "A", "m3")),
                     gen.alt(M("B", "A", "m3"), gen.cat(M("A", "B", "m1"), M("A", "B", "m2"))),
                     gen.alt(gen.cat(M("A", "B", "m1"), M("A", "B", "m2")), gen.cat(M("B", "A", "m3"), M("B", "A", "m4")))):
            g = c19.assign_ids({"start": "<start>", "types": ["m0", "m1", "m2", "m3", "m4", "m9"], "rules": {
                "<start>": gen.cat(M("A", "B", "m0"), M("B", "A", "m0"), gen.rep(body, lo, hi), M("A", "B", "m9"), M("B", "A", "m9"))}})
            for keep in (["A"], ["B"]):
                out.append(("group of alternatives under a repetition, sliced to %s" % keep, c19.render(g) + c19.PARTIES, c19.PARTIES, keep))
    for k in range(n):
        g = c19.rand_protocol(rnd, three_parties=(k % 3 == 2))
        text = c19.render(g) + c19.PARTIES
        keep = [None, ["A"], ["B"], ["A", "B"]][k % 4]
        out.append(("protocol%s" % (" sliced to %s" % keep if keep else ""), text, c19.PARTIES, keep))
    return out


ANNOTATED = [
    '<start> ::= <A:B:a> <B:A:b>\n' + HEAD,
    '<start> ::= (<A:a> <B:A:b>)* <A:B:a>?\n' + HEAD,
    '<start> ::= <A:B:a> (<B:A:b> | <A:B:a>){1,2}\n' + HEAD,
]
GENERATORS = [
    'def f(x):\n    return str(x) + "b"\n<start> ::= <a> <g>\n<g> ::= <a> "b" := f(<a>)\n<a> ::= "a"\n',
    'def two():\n    return "bb"\n<start> ::= <g>{1,2}\n<g> ::= "b"+ := two()\n',
]


def _roundtrip_bodies(bodies):
    from harness.fan import make, quiet
    from harness.ir import node_ir, uniform
    quiet()
    out = []
    for b in bodies:
        text = "<start> ::= " + gen.render_node(b, top=True) + "\n" + HEAD
        rec = {"src": text}
        try:
            f = make(text)
        except Exception as e:  # noqa
            rec["read_error"] = "%s: %s" % (type(e).__name__, str(e)[:80])
            out.append(rec)
            continue
        from fandango.language.symbols import NonTerminal
        rec["read"] = uniform(node_ir(f.grammar.rules[NonTerminal("<start>")]))
        printed = repr(f.grammar)
        rec["printed"] = printed
        try:
            f2 = make(printed + "\n")
            rec["reread"] = uniform(node_ir(f2.grammar.rules[NonTerminal("<start>")]))
            rec["fixpoint"] = (repr(f2.grammar) == printed)
        except Exception as e:  # noqa
            rec["reread_error"] = "%s: %s" % (type(e).__name__, str(e)[:80])
        out.append(rec)
    return out


def _roundtrip_texts(texts):
    """whole specs (literals, annotations, generators): print, re-read, compare all rules and generators"""
    from harness.fan import make, quiet
    from harness.ir import grammar_ir, uniform
    quiet()
    out = []
    for item in texts:
        label, text, pre = item[:3]
        parties = item[3] if len(item) > 3 else None
        rec = {"label": label, "src": text}
        try:
            if parties:
                # the spec sliced to a set of parties (what `fandango convert --parties` prints)
                from fandango.language.parse.parse import parse as parse_spec
                grammar, _cons = parse_spec(text, use_stdlib=False, use_cache=False, parties=list(parties))
            else:
                grammar = make(text).grammar
        except Exception as e:  # noqa
            rec["read_error"] = "%s: %s" % (type(e).__name__, str(e)[:80])
            out.append(rec)
            continue
        g1 = grammar_ir(grammar)
        if parties and "<start>" not in g1["rules"]:
            rec["read_error"] = "the slice deletes the start symbol: nothing to print"
            out.append(rec)
            continue
        printed = repr(grammar)
        rec["printed"] = printed
        try:
            f2 = make(pre + printed + "\n")
            g2 = grammar_ir(f2.grammar)
            rec["pairs"] = [(k, uniform(g1["rules"][k]), uniform(g2["rules"].get(k, {"k": "missing", "xs": []}))) for k in g1["rules"]]
            rec["gens_equal"] = g1["gens"] == g2["gens"]
        except Exception as e:  # noqa
            rec["reread_error"] = "%s: %s" % (type(e).__name__, str(e)[:80])
        out.append(rec)
    return out


def _constraints(args):
    from harness.fan import make, quiet, build_tree
    gtext, cons, trees_ir = args
    quiet()
    trees = [build_tree(t) for t in trees_ir]
    out = []
    for phi, text in cons:
        rec = {"text": text, "phi": phi}
        try:
            f = make(gtext + "where " + text + "\n")
            printed = " and ".join(c.format_as_spec() for c in f.constraints) if len(f.constraints) > 1 else f.constraints[0].format_as_spec()
            rec["printed"] = printed
        except Exception as e:  # noqa
            rec["skip"] = str(e)[:60]
            out.append(rec)
            continue
        try:
            f2 = make(gtext + "where " + printed + "\n")
        except Exception as e:  # noqa
            rec["reread_error"] = "%s: %s" % (type(e).__name__, str(e)[:80])
            out.append(rec)
            continue
        got = []
        for t in trees:
            try:
                got.append("T" if all(c.check(t) for c in f2.constraints) else "F")
            except Exception:
                got.append("X")
        rec["got"] = got
        out.append(rec)
    return out


def run(tier, seed):
    rep = Report(PROP, tier, seed, "translation_validation")
    depth = 2
    bpath = os.path.join(subdir("c15"), "bodies.ndjson")
    dummy = os.path.join(subdir("c15"), "empty.ndjson")
    open(dummy, "w").write("")
    r = run_tlc("SpecPrintBodies", "SpecPrintBodies", workers=1, env={"OUT": bpath, "DEPTH": str(depth), "TRACE_FILE": dummy}, timeout=900)
    bodies = [json.loads(l) for l in open(bpath)]
    if len(bodies) < 3000:
        raise common.Machinery("only %d bodies enumerated" % len(bodies))
    rnd = random.Random(seed)
    # deeper, seeded bodies from the generator family
    deep = []
    for _ in range(150 if tier == "quick" else 3000):
        deep.append(gen.rand_node(rnd, 3, ["<a>", "<b>"], "text", regex_ok=False))
    # bounds around the process-wide cap on open-ended repetitions (an open bound is internally capped there, which must
    # not show in the printed text): {n}, {n,}, {n,m}, {,m} for n, m next to the cap in force
    import fandango.language.grammar.nodes as fnodes
    cap = getattr(fnodes, "MAX_REPETITIONS", 20)
    for x in (gen.nt("<a>"), gen.cat(gen.nt("<a>"), gen.nt("<b>"))):
        for n in (cap - 1, cap, cap + 1):
            deep += [gen.rep(x, n, gen.INF), gen.rep(x, n, n), gen.rep(x, 0, n), gen.rep(x, 1, n), gen.rep(x, n, n + 1), gen.rep(x, n - 1, n)]
    if tier == "quick":
        bodies = [b for b in bodies if b["k"] == "rep" or rnd.random() < 0.35]
    allb = bodies + deep
    results = []
    for chunk in pmap(_roundtrip_bodies, [allb[i::16] for i in range(16)]):
        results.extend(chunk)
    pairs_path = os.path.join(subdir("c15"), "pairs.ndjson")
    idx = 0
    index = {}
    programs = 0
    with open(pairs_path, "w") as fh:
        def emit(tid, before, after, info):
            nonlocal idx
            index[idx] = info
            fh.write(json.dumps({"tid": tid, "idx": idx, "before": before, "after": after}) + "\n")
            idx += 1
        for rec in results:
            programs += 1
            if "read_error" in rec:
                continue        # the reader's acceptance of rendered specs is C14 / C01 territory
            if "reread_error" in rec:
                rep.violation("unparseable:%s" % rec["src"].splitlines()[0], "the printed form of\n%sis\n%s\nwhich the reader rejects: %s"
                              % (rec["src"], rec["printed"], rec["reread_error"]), rec)
                continue
            emit(1, rec["read"], rec["reread"], rec)
        texts = [("literal %s" % lit, "<start> ::= %s <a>\n" % lit + HEAD, "") for lit in LITERALS]
        texts += literal_family(rnd, 160 if tier == "quick" else 4000)
        texts += [("party annotations", t, "") for t in ANNOTATED]
        texts += sliced_family(rnd, 60 if tier == "quick" else 2000)
        texts += [("generator", t, t.split("<start>")[0]) for t in GENERATORS]
        read_errors = []
        ntexts = len(texts)
        for rec in _roundtrip_texts(texts):
            programs += 1
            if "read_error" in rec:
                read_errors.append((rec["label"], rec["read_error"]))
                continue
            if "reread_error" in rec:
                key = "unparseable:%s" % rec["label"]
                rep.violation(key, "%s: the printed spec\n%s\nis rejected by the reader: %s" % (rec["label"], rec["printed"], rec["reread_error"]), rec)
                continue
            for k, a, b in rec["pairs"]:
                emit(2, a, b, dict(rec, rule=k))
            if not rec["gens_equal"]:
                rep.violation("generator:%s" % rec["label"], "%s: generators differ after print / re-read" % rec["label"], rec)
    if len(read_errors) > ntexts // 5:
        raise common.Machinery("%d of %d literal / annotation / generator specs are rejected by the reader, e.g. %s" % (len(read_errors), ntexts, read_errors[:3]))
    rep.add(whole_specs=ntexts, whole_specs_rejected_by_reader=len(read_errors))
    r = run_tlc("SpecPrint", "SpecPrint", workers=1, env={"TRACE_FILE": pairs_path, "OUT": "/dev/null", "DEPTH": "0"}, timeout=1800, heap="8g")
    rep.tlc(r, "SpecPrint.Same")
    cl = [l for l in r.out.splitlines() if l.startswith('<<"CONSUMED"')]
    if not cl or ("%d," % idx) not in cl[0]:
        raise common.Machinery("SpecPrint did not consume the pairs: %s" % cl)
    bad = r.printed("BAD")
    for b in (bad[0] if bad else []):
        rec = index[b["idx"]]
        label = rec.get("label") or rec["src"].splitlines()[0]
        key = "differs:%s" % label
        rep.violation(key, "%s\nis printed as\n%s\nwhich reads back as a different expression" % (rec["src"], rec["printed"]),
                      {k: v for k, v in rec.items() if k in ("src", "printed", "label", "rule")})
    # constraints
    from harness.checks.c07 import grammars
    from harness.cgen import CGen
    from harness.langenum import enumerate_languages
    gs, lits, nts = grammars()
    enum = enumerate_languages(rep, gs, 5, max_nodes=40, label="Lang(C15 trees)")
    jobs, plan = [], []
    for gid, g in gs.items():
        cg = CGen(rnd, nts[gid], lits[gid])
        # atoms and counts: the forms whose printed text the reader takes back.  Quantifiers (printed as all(.. for <x> in
        # sel), rejected by the reader) and formula-level and/or (printed as a parenthesised group and vice versa) are
        # recorded findings F33 / F34 and replayed as pinned witnesses below.
        cons = []
        while len(cons) < (40 if tier == "quick" else 600):
            c = cg.rleaf([])
            if c[0]["f"] in ("atom", "count"):
                cons.append(c)
        trees = rnd.sample(enum[gid].trees, min(25, len(enum[gid].trees)))
        for ch in [cons[i::4] for i in range(4)]:
            jobs.append((gen.render(g), ch, trees))
            plan.append((gid, trees))
    vpath = os.path.join(subdir("c15"), "verdicts.ndjson")
    tid = 0
    meta = {}
    nprog = 0
    with open(vpath, "w") as fh:
        for (gid, trees), rows in zip(plan, pmap(_constraints, jobs)):
            ok = [r_ for r_ in rows if "got" in r_]
            for r_ in rows:
                if "reread_error" in r_:
                    rep.violation("constraint-unparseable:%s" % r_["text"], "constraint `%s` is printed as `%s`, which the reader rejects: %s"
                                  % (r_["text"], r_["printed"], r_["reread_error"]), r_)
            nprog += len(ok)
            for ti, t in enumerate(trees):
                tid += 1
                meta[tid] = (gid, ok)
                fh.write(json.dumps({"ev": "V", "tid": tid, "idx": ti, "phis": [r_["phi"] for r_ in ok], "tree": t,
                                     "got": [r_["got"][ti] for r_ in ok], "lazy": ["-" for _ in ok]}) + "\n")
    r = run_tlc("Trace_Constraint", "Trace_Constraint", workers=1, env={"TRACE_FILE": vpath}, timeout=3000, heap="8g")
    rep.tlc(r, "Trace_Constraint(reread)")
    bad = r.printed("BAD")
    seen = set()
    for b in (bad[0] if bad else []):
        gid, ok = meta[b["tid"]]
        rec = ok[b["k"] - 1]
        key = "constraint:%s" % rec["text"]
        if key in seen:
            continue
        seen.add(key)
        rep.violation(key, "constraint `%s` is printed as `%s`; re-read it gives a verdict the original's meaning does not (%s)"
                      % (rec["text"], rec["printed"], b["clause"]), {"text": rec["text"], "printed": rec["printed"]})
    # pinned witnesses of the constraint-printing findings
    wit = [("F33", 1, {"f": "forall", "var": "<x>", "sel": [{"op": "rule", "sym": "<t>", "i": 0, "j": 0, "hasj": False}],
                       "body": {"f": "atom", "kind": "intgt", "lit": [], "k": 0, "sel": [{"op": "rule", "sym": "<x>", "i": 0, "j": 0, "hasj": False}]}},
            "forall <x> in <t>: int(<x>) > 0"),
           ("F34", 1, {"f": "and", "xs": [
               {"f": "atom", "kind": "streq", "lit": [120], "k": 0, "sel": [{"op": "rule", "sym": "<e>", "i": 0, "j": 0, "hasj": False}, {"op": "child", "sym": "<e>", "i": 0, "j": 0, "hasj": False}]},
               {"f": "atom", "kind": "intgt", "lit": [], "k": 100, "sel": [{"op": "rule", "sym": "<d>", "i": 0, "j": 0, "hasj": False}]}]},
            "str(<e>.<e>) == 'x' and int(<d>) > 100")]
    for fid, gid, phi, text in wit:
        trees = [t for t in enum[gid].trees if len(t["ch"]) == 3][:30]
        rows = _constraints((gen.render(gs[gid]), [(phi, text)], trees))
        r_ = rows[0]
        if "reread_error" in r_:
            rep.violation("witness:%s:%s" % (fid, text), "constraint `%s` is printed as `%s`, which the reader rejects" % (text, r_["printed"]), r_)
        elif "got" in r_:
            wpath = os.path.join(subdir("c15"), "wit_%s.ndjson" % fid)
            with open(wpath, "w") as fh:
                for ti, t in enumerate(trees):
                    fh.write(json.dumps({"ev": "V", "tid": ti + 1, "idx": ti, "phis": [phi], "tree": t, "got": [r_["got"][ti]], "lazy": ["-"]}) + "\n")
            rw = run_tlc("Trace_Constraint", "Trace_Constraint", workers=1, env={"TRACE_FILE": wpath}, timeout=600)
            bw = rw.printed("BAD")
            if bw and bw[0]:
                rep.violation("witness:%s:%s" % (fid, text), "constraint `%s` is printed as `%s`; re-read it gives other verdicts" % (text, r_["printed"]), r_)
    disagreements = len(rep.violations) + sum(len(v[1]) for v in rep.known_hits.values())
    rep.add(programs=programs + nprog, disagreements_checked=disagreements, rule_bodies=len(results), constraints=nprog,
            literals=len(LITERALS), exhaustive=(tier == "thorough"),
            rule="rule bodies: every body of depth <= 2 over 3 leaves x {cat, alt, 6 repetition forms} (%s) + seeded depth-3 bodies; "
                 "28 literals, 3 annotated specs, 2 generator specs; generated constraints re-read and judged on TLC-enumerated trees"
                 % ("all 3279" if tier == "thorough" else "all repetition-rooted + 35% of the others"))
    rep.sample({"src": results[5]["src"], "printed": results[5].get("printed")})
    rep.assumptions += ["structural equality modulo associativity and singleton groups (SpecPrint.Norm)", "the front end's reading of the rendered "
                        "source is compared by C14; here the printed form is compared with what was read"]
    return rep.finish()


def replay(path):
    d = json.load(open(path))
    print(json.dumps(d, indent=1, default=str)[:4000])
    return 0
