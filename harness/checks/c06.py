"""C06 - parsing always terminates.

1. TLC: Earley.tla (symbol-level chart parser, star/plus as right-recursive helper rules, prefix mode) - with the
   specification's admission rule (one item per rule/dot/origin) the closure terminates (<>[]Quiescent, weak
   fairness) on the cyclic-empty-derivation grammars; with the implementation's rule (identity includes the
   children) the chart grows without bound - exactly on the configurations where the real parser hangs.
2. spec -> code: every (grammar, word) of the Lang.tla-enumerated corpus plus a dedicated family (nullable symbols
   outside repetitions, bounded repetitions of nullable bodies, left/right recursion, nesting, ambiguity) is
   parsed by the real parser - first tree, whole forest (when the enumeration has <= 50 derivations), prefix mode -
   with a probe counting Column.add admissions.  "Does not terminate" = the run exceeds an admission budget that is
   1000 x the item-count bound |Items(G)| x (columns + 1) of a chart parser admitting each item once, or 20 s CPU.
3. pinned witnesses of the two recorded non-termination classes (F16 complete mode, F17 prefix mode).
"""
import json
import random
import time

from harness import common, gen
from harness.common import Report, run_tlc, pmap
from harness.parsepipe import build_corpus, real_input

PROP = "C06"

PINNED = [
    ("F16", '<start> ::= <a>* "c"\n<a> ::= "x"?\n', "xc", "complete"),
    ("F16", '<start> ::= <a>+ "c"\n<a> ::= "x"?\n', "xxc", "complete"),
    ("F16", '<start> ::= (<a>?)* "c"\n<a> ::= "x"?\n', "xc", "complete"),
    ("F16", '<start> ::= <a>*\n<a> ::= <b>*\n<b> ::= "y"\n', "y", "complete"),
    ("F16", '<start> ::= <l>\n<l> ::= <l> <l> | "a" | ""\n', "a", "complete"),
    ("F16", '<start> ::= <e> "."\n<e> ::= <e> <o> | "x"\n<o> ::= "y"?\n', "x", "prefix"),
    ("F17", '<start> ::= "a" ("b"? "c")+ "z"?\n', "a", "prefix"),
    ("F17", '<start> ::= <o> <e>\n<e> ::= <e> <t> <o> | <t>\n<o> ::= "y"?\n<t> ::= <o> "x"\n', "yx", "prefix"),
    ("F29", '<start> ::= ("e" | r"[01]")+\n', "1", "prefix"),
]


class Hang(BaseException):
    pass


def items_bound(g):
    """|Items(G)| of the grammar compiled to plain rules: one item per dot position."""
    def size(n):
        k = n["k"]
        if k in ("alt",):
            return 1 + sum(size(x) + 1 for x in n["xs"])
        if k == "cat":
            return 1 + len(n["xs"]) + sum(size(x) for x in n["xs"])
        if k == "rep":
            hi = n["hi"] if n["hi"] < 100 else n["lo"] + 2
            return 4 + hi * 2 + size(n["xs"][0])
        return 2
    return sum(size(n) + 2 for n in g["rules"].values())


def _run_case(args):
    from fandango.language.grammar import ParsingMode
    from fandango.language.grammar.parser.column import Column
    from harness.fan import make, quiet, struct_key
    spec, start, words, nitems, dcount, cpu_limit = args[:6]
    prefix_forest = args[6] if len(args) > 6 else True
    # the number of derivations is known (TLC enumeration, pinned witnesses): a forest that keeps yielding is endless.  For the
    # combinatorial family nothing bounds the (finite, possibly huge) forests: only the admission / CPU budget decides there
    count_cut = args[7] if len(args) > 7 else True
    quiet()
    counter = [0, 0, 0.0]
    orig_add = Column.add

    def add(self, state):
        counter[0] += 1
        if counter[0] > counter[1] or (counter[0] % 500 == 0 and time.process_time() - counter[2] > cpu_limit):
            raise Hang()
        return orig_add(self, state)
    Column.add = add
    out = []

    def on_alarm(signum, frame):      # loops that admit nothing (walks over the chart) are caught by CPU time alone
        raise Hang()
    import signal
    old_handler = signal.signal(signal.SIGVTALRM, on_alarm)
    try:
        try:
            f = make(spec)
        except Exception as e:  # noqa
            return [("__reader__", "", "%s" % e, 0)]
        for w in words:
            inp = real_input(w)
            if inp is None:
                continue
            if sum(1 for o_ in out if o_[2] == "hang") >= 3:
                break       # three requests of this grammar did not finish: enough to report, keep the run short
            cols = 8 * len(inp) + 1
            budget = max(200000, 1000 * nitems * (cols + 1) // 8)
            modes = [("first", ParsingMode.COMPLETE)]
            if dcount.get(w, 0) <= 50:
                modes += [("forest", ParsingMode.COMPLETE)]
            modes += [("prefix", ParsingMode.INCOMPLETE)] if (dcount.get(w, 0) <= 50 and prefix_forest) else [("prefix-first", ParsingMode.INCOMPLETE)]
            for name, mode in modes:
                t0 = time.process_time()
                counter[0], counter[1], counter[2] = 0, budget, t0
                verdict = "ok"
                signal.setitimer(signal.ITIMER_VIRTUAL, cpu_limit * 1.5)
                try:
                    gen_ = f.grammar.parse_forest(inp, start, mode=mode)
                    k = 0
                    yielded = 0
                    distinct = set()
                    for _t in gen_:
                        yielded += 1
                        if count_cut and name not in ("first", "prefix-first"):
                            # the enumeration bounds the number of *derivations*; the implementation may yield one
                            # derivation several times (finitely often: <n>{3} over ("a"*){2} on 'aaaaa' gives 369 trees,
                            # 39 of them distinct, and returns) - only structurally distinct trees are counted
                            distinct.add(hash(struct_key(_t)))
                            k = len(distinct)
                        else:
                            k = yielded
                        if name in ("first", "prefix-first"):
                            break
                        if not count_cut:
                            if k >= 20000:
                                break       # enough: the request is cut short without a verdict about the rest
                            continue
                        if k >= (200 if name == "forest" else 5000):
                            # complete mode: at most 50 derivations exist (TLC enumeration) or the case is a pinned
                            # witness - a forest request that keeps yielding never returns.  Prefix mode also yields
                            # partial trees, whose number the enumeration does not bound: only a very large count
                            # (or the admission / CPU budget) counts there.
                            verdict = "hang"
                            break
                        if time.process_time() - t0 > cpu_limit:
                            raise Hang()
                    gen_.close()
                except Hang:
                    verdict = "hang"
                    f = make(spec)
                except Exception as e:  # noqa  (raising is fine: "returns or raises")
                    verdict = "raised:" + type(e).__name__
                finally:
                    signal.setitimer(signal.ITIMER_VIRTUAL, 0)
                out.append((repr(inp), name, verdict, counter[0]))
    finally:
        signal.setitimer(signal.ITIMER_VIRTUAL, 0)
        signal.signal(signal.SIGVTALRM, old_handler)
        Column.add = orig_add
    return out


TEMPLATES = [
    '<start> ::= <e>\n<e> ::= <e> "+" <t> | <t>\n<t> ::= "x" | "(" <e> ")"\n',
    '<start> ::= <e>\n<e> ::= <t> "+" <e> | <t>\n<t> ::= "x" | "y"\n',
    '<start> ::= <o> "a" <o>\n<o> ::= "" | "b"\n',
    '<start> ::= (<a>?){2,3} "c"\n<a> ::= "x"\n',
    '<start> ::= (<a>*){2} "c"\n<a> ::= "z"\n',
    '<start> ::= <p> <q>\n<p> ::= <q>? "a"?\n<q> ::= r"[ab]*"\n',
    '<start> ::= <l>\n<l> ::= <l> "a" | "a"\n',
    '<start> ::= <s>{0,2}\n<s> ::= <t>{0,2}\n<t> ::= "ab" | "a" | "b"\n',
    '<start> ::= <x>\n<x> ::= "a" <x> "b" | <y>\n<y> ::= "" | "c"\n',
]


# open-ended COUNTED repetitions {n,} (n >= 2) over bodies that can be empty: the parser compiles them to a finite chain of
# helper rules (unlike * and +), so they terminate - with very large forests; first tree and first prefix tree are requested
COUNTED_NULLABLE = [
    ('<start> ::= (<a>?){2,} "x"\n<a> ::= "y"\n', ["x", "yx", "yyx", "xx", "y"]),
    ('<start> ::= <f>{2,} ";"\n<f> ::= <k>? <pad>\n<k> ::= "k"\n<pad> ::= " "{0,2}\n', [";", "k;", "k k;", " ;", "kk"]),
    ('<start> ::= (<a>?){3,}\n<a> ::= "y"\n', ["", "y", "yyyy", "x"]),
    ('<start> ::= "b" (<a>{0,2}){2,} "x"\n<a> ::= "y"\n', ["bx", "byyx", "b", "byx"]),
]


def rec_family():
    """recursion (left / right / nested) x what follows the recursive call (a nullable symbol, an operator, both) x the
    shape of the nullable symbol x the operand (a literal, a nullable prefix, a length-prefixed field): all combinations"""
    out = []
    recs = [('<e> ::= <e> %(X)s | %(B)s', "left"), ('<e> ::= %(B)s %(X)s <e> | %(B)s', "right"), ('<e> ::= "(" <e> ")" %(X)s | %(B)s', "nested")]
    tails = ['"+" <t>', '<o>', '<o> "+" <t>', '<t> <o>', '<o> <o>']
    bases = ['"x"', '<t>']
    os_ = ['"y"?', '"" | "y"', '"y"{0,2}', 'r"y?"']
    ts = ['"x"', '<o> "x"', '<len> <d>{int(<len>)}\n<len> ::= "1" | "2"\n<d> ::= "7"']
    starts = ['<e> "."', '<o> <e>']
    for (r, rname) in recs:
        for X in tails:
            for B in bases:
                for o in os_:
                    for t in ts:
                        for st in starts:
                            spec = "<start> ::= %s\n%s\n<o> ::= %s\n<t> ::= %s\n" % (st, r % {"X": X, "B": B}, o, t)
                            # <e> => <e> <o> => <e>: a cyclic grammar (every word has infinitely many derivations).  Its
                            # whole prefix-mode forest is endless (finding F16, pinned below); first tree, complete-mode
                            # forest and first prefix tree are requested.
                            cyclic = rname == "left" and X in ('<o>', '<o> <o>')
                            out.append((spec, cyclic))
    return out


def _family_words(args):
    """members produced by the grammar's own generator plus random strings over the alphabet"""
    from harness.fan import make, quiet, normalise
    spec, seed = args
    quiet()
    normalise(seed)
    rnd = random.Random(seed)
    words = set()
    try:
        f = make(spec)
        for _ in range(14):
            w = str(f.grammar.fuzz("<start>", max_nodes=rnd.choice([8, 14, 24])))
            if len(w) <= 9:
                words.add(w)
    except Exception:  # noqa
        pass
    alpha = "xy+().127"
    for n in range(0, 6):
        for _ in range(3):
            words.add("".join(rnd.choice(alpha) for _ in range(n)))
    return sorted(words)


def run(tier, seed):
    rep = Report(PROP, tier, seed, "model_checking")
    expect = {"star_spec": None, "plus_prefix_spec": None, "left_spec": None, "plus_full_impl": None,
              "star_impl": "Bounded", "plus_prefix_impl": "Bounded", "left_impl": "Bounded",
              # a nullable symbol expected again after it has been completed (F38) and the three ways predict can treat it
              "twice_never": "AcceptsAtEnd", "twice_guarded": None, "leftopt_always": "Bounded", "leftopt_guarded": None,
              "leftopt_spec": None}
    for cfg, want in expect.items():
        r = run_tlc("MC_Earley", "MC_Earley_" + cfg, workers=1, timeout=300)
        if r.violated != want:
            raise common.Machinery("Earley model %s: expected %s, TLC says %s" % (cfg, want, r.violated))
        if want is None:
            rep.tlc(r, "MC_Earley_" + cfg)
    rep.add(model_configs={"terminating (spec admission / acyclic)": [k for k, v in expect.items() if v is None],
                           "unbounded (implementation admission on cyclic empty derivations)": [k for k, v in expect.items() if v]})
    ng, mu = (30, 5) if tier == "quick" else (400, 6)
    cases = build_corpus(rep, seed + 3000, ng, mu)
    jobs = []
    for c in cases:
        words = list(c["inside"])[:40] + list(c["outside"])[:25]
        dcount = {w: len(c["enum"].words.get(w, [])) for w in words}
        jobs.append((c["spec"], c["g"]["start"], words, items_bound(c["g"]), dcount, 20.0, not gen.regex_first_under_open_rep(c["g"])))
    rnd = random.Random(seed)
    for spec in TEMPLATES:
        alpha = sorted(set(ch for ch in spec if ch.isalnum() and ch in "abcxyz+()"))
        words = set()
        for n in range(0, 6):
            for _ in range(12):
                words.add("".join(rnd.choice(alpha) for _ in range(n)))
        jobs.append((spec, "<start>", sorted(words), 60, {}, 20.0))
    for spec, words in COUNTED_NULLABLE:
        jobs.append((spec, "<start>", words, 200, {w: 999 for w in words}, 20.0))
    fam = rec_family()
    rnd.shuffle(fam)
    fam = fam[:48] if tier == "quick" else fam
    for (spec, cyclic), words in zip(fam, pmap(_family_words, [(s_[0], seed + i) for i, s_ in enumerate(fam)])):
        # cyclic members: first tree and first prefix tree only (their forests are endless: finding F16)
        # whole prefix-mode forests are not requested for the family: with a left recursion whose operands begin with an
        # empty-deriving symbol they do not end (finding F17, pinned) - first prefix tree only
        jobs.append((spec, "<start>", words, 80, {w: 999 for w in words} if cyclic else {}, 20.0, False, False))
    total = 0
    maxadm = 0
    for job, res in zip(jobs, pmap(_run_case, jobs)):
        spec = job[0]
        for inp, mode, verdict, adm in res:
            if inp == "__reader__":
                continue
            total += 1
            maxadm = max(maxadm, adm)
            if verdict == "hang":
                rep.violation("hang:%s:%s:%s" % (spec, inp, mode), "parsing %s (%s) with\n%sdid not finish within the admission/CPU budget (%d admissions)"
                              % (inp, mode, spec, adm), {"spec": spec, "input": inp, "mode": mode})
    # pinned witnesses
    pj = [(spec, "<start>", [w], 40, {}, 4.0) for (_fid, spec, w, _m) in PINNED]
    for (fid, spec, w, mode), res in zip(PINNED, pmap(_run_case, pj)):
        for inp, m, verdict, adm in res:
            want = "prefix" if mode == "prefix" else "forest"
            if m == want and verdict == "hang":
                rep.violation("witness:%s:%s:%s:%s" % (fid, spec, w, mode), "pinned witness %r (%s mode) does not terminate" % (w, mode),
                              {"spec": spec, "input": w, "mode": mode})
    if total < 1000:
        raise common.Machinery("only %d parse requests (vacuous)" % total)
    rep.add(traces_validated_against_impl=total, max_admissions_of_a_terminating_run=maxadm, grammars=len(jobs),
            rule="every word and near-miss (<= %d units) of %d generated grammars and %d hand-written nullable/recursive templates, "
                 "parsed as first tree, prefix mode and (<= 50 derivations) whole forest, admissions counted at Column.add" % (mu, ng, len(TEMPLATES)))
    rep.sample({"spec": TEMPLATES[3], "modes": ["first", "prefix", "forest"]})
    rep.assumptions += ["non-termination is judged by an admission budget 1000x above the item bound of a terminating chart parser (min 200000) or 20 s CPU",
                        "bodies that derive the empty word under open repetitions appear only as pinned witnesses (findings F16, F17)"]
    return rep.finish()


def replay(path):
    d = json.load(open(path))
    print(json.dumps(d, indent=1, default=str)[:4000])
    return 0
