"""One recorded run in a fresh process (C17, C18): python -m harness.detrun <job.json> <out.ndjson>

job: {"steps": [ {"op":"fuzz","spec":..,"seed":..,"settings":{..}} | {"op":"parse","spec":..,"words":[..]} |
                 {"op":"make","spec":..} ... ], "record_from": k}
Events are recorded for steps with index >= record_from (C18 runs activity on A first, then records B).
"""
import hashlib
import json
import sys


def digest(x):
    return hashlib.sha1(repr(x).encode("utf-8", "backslashreplace")).hexdigest()[:16]


def main():
    job = json.load(open(sys.argv[1]))
    from harness.fan import make, quiet, struct_key, tree_text
    from harness.search_driver import operator_probes
    quiet()
    out = []
    objs = {}
    rec = [False]

    def ev(kind, payload):
        if rec[0]:
            out.append({"k": kind, "d": digest(payload)})
    for si, st in enumerate(job["steps"]):
        rec[0] = si >= job.get("record_from", 0) and (job.get("only") is None or st.get("obj") == job["only"])
        name = st.get("obj", "o%d" % si)
        try:
            if st["op"] == "make":
                objs[name] = make(st["spec"])
            elif st["op"] == "fuzz":
                f = objs.get(name) or make(st["spec"])
                objs[name] = f

                def sink(kind, ins, outs):
                    for o in outs:
                        if o is not None:
                            ev(kind.split(":")[0], struct_key(o))
                with operator_probes(sink):
                    sols = f.fuzz(random_seed=st["seed"], solution_callback=lambda t, i: ev("solution", (i, tree_text(t))), **st["settings"])
                ev("returned", [tree_text(t) for t in sols])
            elif st["op"] == "parse":
                f = objs.get(name) or make(st["spec"])
                objs[name] = f
                for w in st["words"]:
                    if isinstance(w, list):
                        w = bytes(w)
                    t = None
                    try:
                        for t in f.parse(w):
                            break
                    except Exception as e:  # noqa
                        ev("parse-exc", (repr(w), type(e).__name__))
                        continue
                    ev("parse", (repr(w), struct_key(t) if t is not None else None))
        except Exception as e:  # noqa
            ev("exception", (st["op"], type(e).__name__, str(e)[:200]))
    with open(sys.argv[2], "w") as fh:
        for e in out:
            fh.write(json.dumps(e) + "\n")


if __name__ == "__main__":
    main()
