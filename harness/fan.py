"""Helpers around the real Fandango objects (imported from /repo/src via PYTHONPATH)."""
import logging
import os
import random
import sys
import warnings

os.environ.setdefault("FANDANGO_DISABLE_UPDATE_CHECK", "1")
warnings.filterwarnings("ignore")

from fandango import Fandango  # noqa: E402
from fandango.language.grammar import nodes as _nodes  # noqa: E402
from fandango.language.symbols import NonTerminal, Terminal  # noqa: E402
from fandango.language.tree import DerivationTree  # noqa: E402
from fandango.language.tree_value import TreeValueType  # noqa: E402
from fandango.logger import LOGGER  # noqa: E402

assert "/site-packages/" not in sys.modules["fandango"].__file__, \
    "fandango must be imported from the working tree (PYTHONPATH=/repo/src)"

DEFAULT_CAP = 20


def quiet():
    """Silence Fandango's logging and its exception printing (production mode prints swallowed exceptions)."""
    LOGGER.setLevel(logging.CRITICAL)
    logging.disable(logging.CRITICAL)
    if not os.environ.get("VERIF_KEEP_STDERR"):
        sys.stderr = open(os.devnull, "w")


def normalise(seed=0):
    """Every case starts from a normalised process state (DESIGN 7.1)."""
    _nodes.MAX_REPETITIONS = DEFAULT_CAP
    random.seed(seed)


def make(spec, constraints=None, **kw):
    kw.setdefault("use_stdlib", False)
    kw.setdefault("logging_level", logging.CRITICAL)
    kw.setdefault("use_cache", False)
    if isinstance(spec, str) and spec.startswith("@file:"):
        # a spec that lives in a file (include() names are resolved relative to it)
        with open(spec[6:]) as fh:
            return Fandango(fh, constraints, **kw)
    return Fandango(spec, constraints, **kw)


def leaf_kind_val(sym):
    """(kind, ints) of a terminal symbol: text -> code points, bytes -> byte values, bit -> [b]."""
    v = sym.value()
    if v.is_type(TreeValueType.TRAILING_BITS_ONLY):
        return "bit", list(v._trailing_bits)
    if v.is_type(TreeValueType.BYTES):
        return "bytes", list(v._value) if isinstance(v._value, bytes) else list(v.to_bytes())
    if v.is_type(TreeValueType.EMPTY):
        return "text", []
    return "text", [ord(c) for c in v._value]


def tree_ir(t, with_sources=False):
    """DerivationTree -> nested record with uniform fields (trace format, DESIGN 2.4)."""
    sym = t.symbol
    if sym.is_terminal:
        kind, val = leaf_kind_val(sym)
        r = {"sym": "", "term": True, "kind": kind, "val": val, "ch": [], "helper": False}
    else:
        name = sym.format_as_spec() if sym.is_non_terminal else "<*slice*>"
        r = {"sym": name, "term": False, "kind": "", "val": [], "ch": [tree_ir(c, with_sources) for c in t.children],
             "helper": name.startswith("<__") or name.startswith("<*")}
    r["snd"] = t.sender or ""
    r["rcp"] = t.recipient or ""
    r["ro"] = bool(t.read_only)
    if with_sources:
        r["src"] = [tree_ir(s, True) for s in t.sources]
    return r


def struct_key(t):
    """Structural identity of a tree, independent of the code's __hash__/__eq__."""
    sym = t.symbol
    if sym.is_terminal:
        kind, val = leaf_kind_val(sym)
        head = ("T", kind, tuple(val))
    else:
        head = ("N", sym.format_as_spec() if sym.is_non_terminal else "<*slice*>")
    return (head, t.sender, t.recipient, tuple(struct_key(c) for c in t.children))


class Interner:
    def __init__(self):
        self.ids = {}

    def __call__(self, key):
        if key not in self.ids:
            self.ids[key] = len(self.ids) + 1
        return self.ids[key]


def tree_text(t):
    """Best-effort printable form of a tree's value."""
    try:
        if t.should_be_serialized_to_bytes():
            return repr(t.to_bytes())
        return t.to_string()
    except Exception as e:  # noqa
        return "<%s>" % type(e).__name__


def build_tree(ir):
    """IR record -> real DerivationTree."""
    if ir["term"]:
        if ir["kind"] == "bit":
            sym = Terminal(ir["val"][0])
        elif ir["kind"] == "bytes":
            sym = Terminal(bytes(ir["val"]))
        else:
            sym = Terminal("".join(chr(c) for c in ir["val"]))
        return DerivationTree(sym, sender=ir.get("snd") or None, recipient=ir.get("rcp") or None)
    return DerivationTree(NonTerminal(ir["sym"]), [build_tree(c) for c in ir["ch"]],
                          sender=ir.get("snd") or None, recipient=ir.get("rcp") or None)
