"""Renders the abstract programs of spec/PyAst.tla as Python source (canonicalised by CPython's own ast.unparse)."""
import ast

BIN = {"Add": "+", "Sub": "-", "Mult": "*", "MatMult": "@", "Div": "/", "Mod": "%", "Pow": "**", "LShift": "<<", "RShift": ">>",
       "BitOr": "|", "BitXor": "^", "BitAnd": "&", "FloorDiv": "//"}
BOOL = {"And": "and", "Or": "or"}
UN = {"Invert": "~", "Not": "not ", "UAdd": "+", "USub": "-"}
CMP = {"Eq": "==", "NotEq": "!=", "Lt": "<", "LtE": "<=", "Gt": ">", "GtE": ">=", "Is": "is", "IsNot": "is not", "In": "in", "NotIn": "not in"}
LAMBDA = {"none": "lambda: %s", "args": "lambda p, q: %s", "defaults": "lambda p, q=2: %s", "vararg": "lambda p, *r: %s",
          "kwonly": "lambda p, *, k=1: %s", "kwarg": "lambda **kw: %s", "all": "lambda p, q=2, *r, k=1, **kw: %s"}
ARGS = {"none": "", "args": "p, q", "posonly": "p, /, q", "defaults": "p, q=2", "vararg": "p, *r", "kwonly": "p, *, k", "kwonly_defaults": "p, *, k=1, m",
        "kwarg": "p, **kw", "annotations": "p: int, q: 'T' = None", "returns": "p", "all": "p, /, q, r=2, *s, k, m=4, **kw"}


def P(s):
    return "(" + s + ")"


def sig(a):
    """a composed parameter list (spec/PyAst.tla Sigs): "sig:po|re|st|ko|kw" """
    a = dict(zip(("po", "re", "st", "ko", "kw"), a[4:].split("|")))
    parts = []
    if a["po"]:
        parts += [a["po"], "/"]
    if a["re"]:
        parts.append(a["re"])
    if a["st"] == "bare":
        parts.append("*")
    elif a["st"] == "var":
        parts.append("*r")
    if a["ko"]:
        parts.append(a["ko"])
    if a["kw"]:
        parts.append(a["kw"])
    return ", ".join(parts)


def shaped(c, shape, k):
    """displays / argument lists composed entry by entry"""
    if c == "Dict":
        return "{" + ", ".join(("'k%d': %s" % (i, k[i])) if e == "kv" else "**" + k[i] for i, e in enumerate(shape)) + "}"
    if c == "Call":
        return "g(" + ", ".join({"p": k[i], "st": "*" + k[i], "kw": "key%d=%s" % (i, k[i]), "ds": "**" + k[i]}[e] for i, e in enumerate(shape)) + ")"
    items = ", ".join(k[i] if e == "e" else "*" + k[i] for i, e in enumerate(shape))
    if c == "Tuple":
        return "(" + items + ("," if len(shape) == 1 else "") + ")"
    return {"List": "[%s]", "Set": "{%s}"}[c] % items


def expr(n):
    c, a, xs = n["c"], n["a"], n["xs"]
    k = [P(expr(x)) if x["c"] not in ("Name", "Const") else expr(x) for x in xs]
    if c == "Name":
        return a
    if c == "Const":
        return a
    if a.startswith("shape:"):
        return shaped(c, a[6:].split(","), k)
    if c == "Lambda" and a.startswith("sig:"):
        return "lambda %s: %s" % (sig(a), k[0]) if sig(a) else "lambda: %s" % k[0]
    if c == "BinOp":
        return "%s %s %s" % (k[0], BIN[a], k[1])
    if c == "BoolOp":
        return (" %s " % BOOL[a]).join(k)
    if c == "UnaryOp":
        return UN[a] + k[0]
    if c == "Compare":
        return "%s %s %s" % (k[0], CMP[a], k[1])
    if c == "Compare2":
        return "%s %s %s %s %s" % (k[0], CMP[a], k[1], CMP["LtE" if a != "LtE" else "Lt"], k[2])
    if c == "IfExp":
        return "%s if %s else %s" % (k[0], k[1], k[2])
    if c == "Call":
        f = k[0]
        return {"none": "%s()" % f, "pos": "%s(%s)" % (f, k[1]), "pos2": "%s(%s, %s)" % (f, k[1], k[2]), "star": "%s(*%s)" % (f, k[1]),
                "kw": "%s(key=%s)" % (f, k[1]), "dstar": "%s(**%s)" % (f, k[1]), "mixed": "%s(%s, *%s, key=%s, **%s)" % (f, k[1], k[2], k[1], k[2])}[a]
    if c == "Attribute":
        return "%s.attr" % k[0]
    if c == "Subscript":
        return {"index": "%s[%s]" % (k[0], k[1] if len(k) > 1 else ""), "tuple": "%s[%s, %s]" % (k[0], k[1], k[2]) if len(k) > 2 else "",
                "ellipsis": "%s[...]" % k[0], "one_tuple": "%s[%s,]" % (k[0], k[1] if len(k) > 1 else "")}[a]
    if c == "SubscriptSlice":
        low, up, st = ("l" in a), ("u" in a), ("s" in a)
        return "%s[%s:%s%s]" % (k[0], k[1] if low else "", k[1] if up else "", (":" + k[1]) if st else "")
    if c == "SubscriptSlices":
        return "%s[%s:%s, ::%s]" % (k[0], k[1], k[2], k[1])
    if c in ("List", "Tuple", "Set"):
        if a == "empty":
            return {"List": "[]", "Tuple": "()"}[c]
        if a == "single":
            return "(%s,)" % k[0]
        items = "%s, %s" % (k[0], k[1]) if a == "plain" else "%s, *%s" % (k[0], k[1])
        return {"List": "[%s]", "Tuple": "(%s)", "Set": "{%s}"}[c] % items
    if c == "Dict":
        return {"empty": "{}", "plain": "{%s: %s, 'k': %s}" % tuple((k + ["0"] * 3)[:3]), "dstar": "{%s: %s, **%s}" % tuple((k + ["0"] * 3)[:3])}[a]
    if c in ("ListComp", "SetComp", "GeneratorExp", "DictComp"):
        elt = "%s: %s" % (k[0], k[0]) if c == "DictComp" else k[0]
        gens = {"plain": "for i in %s" % k[1], "if": "for i in %s if %s" % (k[1], k[2]), "ifif": "for i in %s if %s if i" % (k[1], k[2]),
                "two_for": "for i in %s for j in %s" % (k[1], k[2]), "tuple_target": "for i, j in %s" % k[1]}[a]
        o, cl = {"ListComp": "[]", "SetComp": "{}", "GeneratorExp": "()", "DictComp": "{}"}[c]
        return "%s%s %s%s" % (o, elt, gens, cl)
    if c == "Lambda":
        return LAMBDA[a] % k[0]
    if c == "JoinedStr":
        x, y = k[0], k[1]
        return {"text": "f'just text'", "expr": "f'{%s}'" % x, "conv_r": "f'{%s!r}'" % x, "conv_s": "f'{%s!s}'" % x, "conv_a": "f'{%s!a}'" % x,
                "spec": "f'{%s:>10}'" % x, "nested_spec": "f'{%s:>{%s}}'" % (x, y), "debug": "f'{%s=}'" % x,
                "text_expr_text": "f'is {%s} not an integer'" % x, "braces": "f'{{%s}} {%s}'" % ("lit", x)}[a]
    if c == "NamedExpr":
        return "(w := %s)" % k[0]
    if c == "Starred":
        return "f(*%s)" % k[0]
    if c == "ConcatStr":
        return "'a' 'b'"
    raise ValueError(c)


def stmt(n):
    c, a, xs = n["c"], n["a"], n["xs"]
    e = expr(xs[0]) if xs else "a"
    if c == "Assign":
        return {"single": "x = %s", "multi": "x = y = %s", "tuple_target": "x, y = %s", "starred_target": "x, *y = %s", "attr_target": "x.f = %s",
                "subscript_target": "x[0] = %s", "one_tuple_value": "x = %s,", "one_tuple_target": "x, = %s", "one_tuple_aug": "x += %s,"}[a] % e + "\n"
    if c == "AugAssign":
        return "x %s= %s\n" % (BIN[a], e)
    if c == "AnnAssign":
        return {"value": "x: int = %s\n" % e, "novalue": "x: int\n", "attr": "x.f: int = %s\n" % e}[a]
    if c == "ExprStmt":
        return "%s\n" % (P(e) if xs[0]["c"] in ("NamedExpr",) else e)
    if c == "Delete":
        return {"names": "del x, y\n", "subscript": "del x[0], y.f\n"}[a]
    if c == "Pass":
        return "pass\n"
    if c == "If":
        return {"plain": "if %s:\n    pass\n", "else": "if %s:\n    pass\nelse:\n    x = 1\n", "elif": "if %s:\n    pass\nelif b:\n    x = 1\n",
                "elif_else": "if %s:\n    pass\nelif b:\n    x = 1\nelse:\n    x = 2\n"}[a] % e
    if c == "While":
        return {"plain": "while %s:\n    pass\n", "else": "while %s:\n    pass\nelse:\n    x = 1\n",
                "break_continue": "while %s:\n    if b:\n        break\n    continue\n"}[a] % e
    if c == "For":
        return {"plain": "for i in %s:\n    pass\n", "else": "for i in %s:\n    pass\nelse:\n    x = 1\n", "tuple_target": "for i, j in %s:\n    pass\n", "one_tuple_target": "for i, in %s:\n    pass\n",
                "async": "async def f():\n    async for i in %s:\n        pass\n"}[a] % e
    if c == "With":
        return {"plain": "with %s:\n    pass\n", "as": "with %s as w:\n    pass\n", "two": "with %s as w, b:\n    pass\n",
                "async": "async def f():\n    async with %s as w:\n        pass\n"}[a] % e
    if c == "Try":
        return {"except": "try:\n    x = %s\nexcept:\n    pass\n", "except_type": "try:\n    x = %s\nexcept E:\n    pass\n",
                "except_as": "try:\n    x = %s\nexcept E as err:\n    pass\n", "except_tuple": "try:\n    x = %s\nexcept (E, F) as err:\n    pass\n",
                "else": "try:\n    x = %s\nexcept E:\n    pass\nelse:\n    y = 1\n", "finally": "try:\n    x = %s\nexcept E:\n    pass\nfinally:\n    y = 1\n",
                "only_finally": "try:\n    x = %s\nfinally:\n    y = 1\n", "two_handlers": "try:\n    x = %s\nexcept E:\n    pass\nexcept F:\n    y = 1\n"}[a] % e
    if c == "Raise":
        return {"bare": "try:\n    pass\nexcept E:\n    raise\n", "exc": "raise %s\n" % e, "from": "raise %s from b\n" % e}[a]
    if c == "Assert":
        return {"plain": "assert %s\n" % e, "msg": "assert b, %s\n" % e}[a]
    if c == "Import":
        return {"plain": "import os\n", "as": "import os as o\n", "dotted": "import os.path as p\n", "two": "import os, sys as s\n"}[a]
    if c == "ImportFrom":
        return {"plain": "from os import path\n", "as": "from os import path as p\n", "relative1": "from . import m\n", "relative2": "from ..pkg import m as n, k\n",
                "star": "from os import *\n", "two": "from os import path, sep as s\n"}[a]
    if c == "FunctionDef":
        if a.startswith("sig:"):
            return "def f(%s):\n    return %s\n" % (sig(a), e)
        if a in ARGS:
            ret = " -> None" if a in ("returns", "all") else ""
            return "def f(%s)%s:\n    return %s\n" % (ARGS[a], ret, e)
        return {"decorator": "@d\ndef f():\n    return %s\n", "decorator_call": "@d(1)\n@e\ndef f():\n    return %s\n", "async": "async def f():\n    return %s\n",
                "global": "def f():\n    global g1, g2\n    g1 = %s\n", "nonlocal": "def f():\n    v = 1\n    def g():\n        nonlocal v\n        v = %s\n    return g\n",
                "yield": "def f():\n    x = yield %s\n    yield\n", "yield_from": "def f():\n    yield from %s\n", "await": "async def f():\n    x = await %s\n",
                "return_none": "def f():\n    x = %s\n    return\n", "docstring": "def f():\n    'doc'\n    return %s\n",
                "nested": "def f():\n    def g(p=1):\n        return %s\n    return g\n", "return_one_tuple": "def f():\n    return %s,\n",
                "yield_one_tuple": "def f():\n    yield %s,\n", "returns_expr": "def f(p, q=2):\n    return %s\n"}[a] % e
    if c == "ClassDef":
        return {"plain": "class K:\n    x = %s\n", "bases": "class K(B1, B2):\n    x = %s\n", "keywords": "class K(B1, metaclass=M):\n    x = %s\n",
                "decorator": "@d\nclass K:\n    x = %s\n", "method": "class K:\n    def m(self, p=1):\n        return %s\n"}[a] % e
    if c == "Match":
        return "match %s:\n    case 1:\n        pass\n" % e
    if c == "TypeAlias":
        return "type T = int\n"
    raise ValueError(c)


def canonical(src, mode):
    """CPython's own reading of the text, unparsed again: the text handed to Fandango and the reference AST."""
    tree = ast.parse(src, mode=mode)
    return ast.unparse(tree), ast.dump(tree)
