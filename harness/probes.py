"""Wrappers installed at linearization points at run time (no edits of /repo)."""
import contextlib
import copy

from fandango.constraints.constraint import Constraint
from fandango.constraints.repetition_bounds import RepetitionBoundsConstraint
from fandango.constraints.soft import SoftValue
from fandango.evolution.evaluation import Evaluator
from fandango.language.tree import DerivationTree

from harness.fan import struct_key, Interner


def clear_caches(objs, _seen=None):
    """Empty every `cache` dict reachable from the given constraint objects."""
    seen = _seen if _seen is not None else set()
    stack = list(objs)
    while stack:
        o = stack.pop()
        if id(o) in seen:
            continue
        seen.add(id(o))
        if isinstance(o, Constraint):
            if isinstance(getattr(o, "cache", None), dict):
                o.cache.clear()
            for v in vars(o).values():
                if isinstance(v, (Constraint, list, tuple, dict)):
                    stack.append(v)
        elif isinstance(o, (list, tuple)):
            stack.extend(x for x in o if isinstance(x, (Constraint, list, tuple, dict)))
        elif isinstance(o, dict):
            stack.extend(x for x in o.values() if isinstance(x, (Constraint, list, tuple, dict)))


def node_path(node, root):
    """Child-index path of `node` below `root` (by object identity); None if not below."""
    path = []
    cur = node
    guard = 0
    while cur is not root:
        par = cur.parent
        if par is None or guard > 10000:
            return None
        idx = None
        for i, c in enumerate(par.children):
            if c is cur:
                idx = i
                break
        if idx is None:
            for i, c in enumerate(par.sources):
                if c is cur:
                    idx = -1 - i
                    break
        if idx is None:
            return None
        path.append(idx)
        cur = par
        guard += 1
    return tuple(reversed(path))


def rebuilt(tree):
    """Independent copy of a tree (same structure, tags and sources; no cached hashes)."""
    c = copy.deepcopy(tree)
    stack = [c]
    while stack:
        n = stack.pop()
        n.hash_cache = None
        stack.extend(n._children)
        stack.extend(n._sources)
    return c


def summarise(result, root):
    """(fitness, failing trees, suggestion) -> comparable summary string."""
    fitness, failing, _sugg = result
    # a failing part is identified by its position in the tree it belongs to (a cache hit may hand out the nodes
    # of a structurally identical tree evaluated earlier: same positions, other objects - that is not a difference)
    fails = sorted((repr(node_path(f.tree, f.tree.get_root())), type(f.cause).__name__) for f in failing)
    return "%r|%s" % (fitness, fails)


def split_constraints(constraints):
    hard = [c for c in constraints if isinstance(c, Constraint) and not isinstance(c, RepetitionBoundsConstraint)]
    rep = [c for c in constraints if isinstance(c, RepetitionBoundsConstraint)]
    soft = [c for c in constraints if isinstance(c, SoftValue)]
    return hard, rep, soft


class FreshJudge:
    """Brand-new constraint objects (re-read from the spec text), caches emptied before each use."""

    def __init__(self, factory):
        self.fan = factory()
        self.hard, self.rep, self.soft = split_constraints(self.fan.constraints)

    def flags(self, tree):
        clear_caches(self.hard + self.rep)
        t = rebuilt(tree)
        out = []
        for group in (self.hard, self.rep):
            fl = []
            for c in group:
                try:
                    fl.append(bool(c.fitness(t).success))
                except Exception:  # a raising constraint is not satisfied
                    fl.append(False)
            out.append(fl)
        return out

    def evaluator_result(self, tree):
        """Result of a brand-new Evaluator over the fresh constraints for an independent copy."""
        clear_caches(self.hard + self.rep)
        t = rebuilt(tree)
        ev = Evaluator(self.fan.grammar, list(self.fan.constraints), 1.0, 0, 0.0)
        gen = Evaluator.__dict__["evaluate_individual"].__wrapped__(ev, t) if hasattr(
            Evaluator.__dict__["evaluate_individual"], "__wrapped__") else ev.evaluate_individual(t)
        try:
            while True:
                next(gen)
        except StopIteration as st:
            return summarise(st.value, t)


@contextlib.contextmanager
def evaluator_probe(sink, judge=None, tid=0, with_fresh_result=False):
    """Log one event per Evaluator.evaluate_individual return (linearization point = the return).

    sink: list receiving event dicts in the Trace_Eval format.
    """
    orig = Evaluator.evaluate_individual
    intern = Interner()
    counter = [0]
    depth = [0]

    def wrapped(self, individual):
        if depth[0] > 0:  # nested (IoEvaluator calls super()): observe the outer call only
            return (yield from orig(self, individual))
        depth[0] += 1
        ny = 0
        try:
            gen = orig(self, individual)
            try:
                while True:
                    x = next(gen)
                    ny += 1
                    yield x
            except StopIteration as st:
                ret = st.value
        finally:
            depth[0] -= 1
        root = individual.get_root()
        ev = {"ev": "Eval", "tid": tid, "idx": counter[0],
              "key": intern((struct_key(root), struct_key(individual))), "ny": ny,
              "res": summarise(ret, root)}
        counter[0] += 1
        if judge is not None:
            hs, rs = judge.flags(individual)
            ev["hsat"], ev["rsat"] = hs, rs
            ev["fresh"] = judge.evaluator_result(individual) if with_fresh_result else ev["res"]
        ev["_tree"] = individual
        sink.append(ev)
        return ret

    wrapped.__wrapped__ = orig
    Evaluator.evaluate_individual = wrapped
    try:
        yield
    finally:
        Evaluator.evaluate_individual = orig
