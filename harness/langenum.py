"""Runs the TLC derivation machine (spec/Lang.tla) on a batch of grammars and collects the enumerated languages."""
import json
import os
import re

from harness import common
from harness.common import run_tlc, subdir


def leaves_of(ir):
    if ir["term"]:
        return [(ir["kind"], tuple(ir["val"]))]
    out = []
    for c in ir["ch"]:
        out.extend(leaves_of(c))
    return out


def word_of(ir, flavour):
    """The input a tree spells: str for text grammars, bytes for bytes grammars, tuple of bits for bit grammars."""
    ls = leaves_of(ir)
    if flavour == "text":
        return "".join("".join(chr(c) for c in v) for k, v in ls)
    if flavour == "bytes":
        out = b""
        for k, v in ls:
            out += bytes(v) if k == "bytes" else "".join(chr(c) for c in v).encode("utf-8")
        return out
    bits = []
    for k, v in ls:
        if k == "bit":
            bits.extend(v)
        else:
            for b in (bytes(v) if k == "bytes" else "".join(chr(c) for c in v).encode("utf-8")):
                bits.extend((b >> (7 - i)) & 1 for i in range(8))
    return tuple(bits)


class Enumerated:
    def __init__(self, g):
        self.g = g
        self.trees = []
        self.words = {}
        self.truncated = False


def enumerate_languages(rep, grammars, max_units, max_nodes=40, label="Lang", timeout=3000):
    """grammars: {gid: g}. Returns {gid: Enumerated}."""
    d = subdir("lang")
    path = os.path.join(d, "grammars_%d.json" % len(os.listdir(d)))
    gs = [{"gid": gid, "start": g["start"], "rules": g["rules"]} for gid, g in sorted(grammars.items())]
    json.dump(gs, open(path, "w"))
    r = run_tlc("Lang", "Lang", workers=8, env={"GRAMMARS": path, "MAXUNITS": str(max_units), "MAXNODES": str(max_nodes)},
                timeout=timeout, heap="12g")
    rep.tlc(r, "%s(units<=%d, %d grammars)" % (label, max_units, len(gs)))
    res = {gid: Enumerated(g) for gid, g in grammars.items()}
    pat = re.compile(r'<<"TREE", (\d+), "(.*)">>$')
    pt = re.compile(r'<<"TRUNC", (\d+), "(\w+)">>$')
    for line in r.out.splitlines():
        line = line.strip()
        m = pat.match(line)
        if m:
            gid = int(m.group(1))
            ir = json.loads(json.loads('"' + m.group(2) + '"'))
            e = res[gid]
            e.trees.append(ir)
            e.words.setdefault(word_of(ir, e.g.get("flavour", "text")), []).append(ir)
            continue
        m = pt.match(line)
        if m:
            res[int(m.group(1))].truncated = True
    return res


def near_misses(words, max_len, rnd, limit=200):
    """Single-unit deletions / substitutions / insertions / transpositions and truncations of the given words."""
    words = list(words)
    alphabet = sorted({u for w in words for u in _units(w)})
    out = set()
    for w in words:
        us = _units(w)
        n = len(us)
        cands = []
        for i in range(n):
            cands.append(us[:i] + us[i + 1:])
            for a in alphabet:
                if a != us[i]:
                    cands.append(us[:i] + [a] + us[i + 1:])
            if i + 1 < n and us[i] != us[i + 1]:
                cands.append(us[:i] + [us[i + 1], us[i]] + us[i + 2:])
        for i in range(n + 1):
            for a in alphabet:
                cands.append(us[:i] + [a] + us[i:])
        for i in range(n):
            cands.append(us[:i])
        for c in cands:
            if len(c) <= max_len:
                out.add(_join(c, w))
    out = sorted(out - set(words), key=repr)
    if len(out) > limit:
        out = rnd.sample(out, limit)
    return out


def _units(w):
    if isinstance(w, str):
        return list(w)
    if isinstance(w, bytes):
        return [bytes([b]) for b in w]
    return list(w)


def _join(us, like):
    if isinstance(like, str):
        return "".join(us)
    if isinstance(like, bytes):
        return b"".join(us)
    return tuple(us)
