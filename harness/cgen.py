"""Seeded generator of constraint IR (spec/Constraint.tla) with its rendering as .fan text."""


def step(op, sym="", i=0, j=0, hasj=False):
    return {"op": op, "sym": sym, "i": i, "j": j, "hasj": hasj}


class CGen:
    def __init__(self, rnd, nts, lits, ints=(0, 3, 10), child_of=None):
        """nts[0] is the start symbol; child_of: symbol -> symbols that may occur below it (keeps selectors sensible)."""
        self.rnd = rnd
        self.nts = nts
        self.lits = lits
        self.ints = ints

    def rsel(self, scopevars):
        rnd = self.rnd
        base = rnd.choice(scopevars) if scopevars and rnd.random() < 0.6 else rnd.choice(self.nts)
        steps = [step("rule", base)]
        if rnd.random() < 0.45:
            return steps        # a plain symbol: the selectors that match something on most trees

        def maybe_bracket():
            r = rnd.random()
            if r < 0.2:
                steps.append(step("item", i=rnd.choice([0, 1, 2])))
                return True
            elif r < 0.35:
                hasj = rnd.random() < 0.5
                steps.append(step("slice", i=rnd.choice([0, 1]), j=rnd.choice([1, 2, 3]), hasj=hasj))
                return True
            return False
        bracket = maybe_bracket()
        prev = base if not bracket else None   # after a bracket the symbol is not known
        for _ in range(rnd.randint(0, 2)):
            s = rnd.choice(self.nts[1:])
            # `..` only from a step whose symbol is known and different (DESIGN 7.1)
            if rnd.random() < 0.5 or prev is None or s == prev or prev.startswith("<v"):
                steps.append(step("child", s))
            else:
                steps.append(step("desc", s))
            prev = s
            if maybe_bracket():
                prev = None
        return steps

    @staticmethod
    def sel_text(steps):
        o = ""
        for st in steps:
            if st["op"] == "rule":
                o += st["sym"]
            elif st["op"] == "child":
                o += "." + st["sym"]
            elif st["op"] == "desc":
                o += ".." + st["sym"]
            elif st["op"] == "item":
                o += "[%d]" % st["i"]
            elif st["op"] == "slice":
                o += "[%d:%s]" % (st["i"], st["j"] if st["hasj"] else "")
        return o

    def ratom(self, scopevars):
        rnd = self.rnd
        kind = rnd.choice(["streq", "strne", "lengt", "intgt", "intle", "starts", "halflt", "halfgt"])
        sel = self.rsel(scopevars)
        st = self.sel_text(sel)
        base = {"f": "atom", "kind": kind, "lit": [], "k": 0, "sel": sel}
        if kind in ("streq", "strne", "starts"):
            lit = rnd.choice(self.lits)
            base["lit"] = [ord(c) for c in lit]
            if kind == "streq":
                return base, "str(%s) == %r" % (st, lit)
            if kind == "strne":
                return base, "str(%s) != %r" % (st, lit)
            return base, "str(%s).startswith(%r)" % (st, lit)
        if kind == "lengt":
            base["k"] = rnd.choice([0, 1, 2])
            return base, "len(str(%s)) > %d" % (st, base["k"])
        if kind in ("halflt", "halfgt"):
            # float-valued sides; the bound is one of the numbers the texts spell, so that both sides are often equal
            base["k"] = rnd.choice([0, 1, 2, 3, 7, 10, 12, 17])
            return base, "int(%s) / 2 %s %r" % (st, "<" if kind == "halflt" else ">", base["k"] / 2)
        base["k"] = rnd.choice(self.ints)
        if kind == "intgt":
            return base, "int(%s) > %d" % (st, base["k"])
        return base, "int(%s) <= %d" % (st, base["k"])

    def rcmp2(self, scopevars):
        """a comparison of two symbols (typically one bound by a quantifier and one free)"""
        rnd = self.rnd
        kind = rnd.choice(["intle", "intlt", "streq", "strne", "halflt"])
        s1, s2 = self.rsel(scopevars), self.rsel([])
        t1, t2 = self.sel_text(s1), self.sel_text(s2)
        text = {"intle": "int(%s) <= int(%s)", "intlt": "int(%s) < int(%s)", "streq": "str(%s) == str(%s)", "strne": "str(%s) != str(%s)",
                "halflt": "int(%s) / 2 < int(%s) / 2"}[kind] % (t1, t2)
        return {"f": "cmp2", "kind": kind, "sel": s1, "sel2": s2}, text

    def rleaf(self, scopevars):
        rnd = self.rnd
        r = rnd.random()
        if r < 0.15:
            return self.rcmp2(scopevars)
        if r < 0.6:
            return self.ratom(scopevars)
        if r < 0.75:
            sel = self.rsel(scopevars)
            k = rnd.choice([1, 2, 3])
            return {"f": "count", "sel": sel, "k": k}, "|%s| >= %d" % (self.sel_text(sel), k)
        op = rnd.choice(["and", "or"])
        parts = [self.ratom(scopevars) for _ in range(rnd.randint(2, 3))]
        return {"f": "group", "op": op, "xs": [p[0] for p in parts]}, "(" + (" %s " % op).join(p[1] for p in parts) + ")"

    def rconj(self, scopevars):
        parts = [self.rleaf(scopevars) for _ in range(self.rnd.randint(1, 2))]
        if len(parts) == 1:
            return parts[0]
        return {"f": "and", "xs": [p[0] for p in parts]}, " and ".join(p[1] for p in parts)

    def rdisj(self, scopevars):
        parts = [self.rconj(scopevars) for _ in range(self.rnd.randint(1, 2))]
        if len(parts) == 1:
            return parts[0]
        return {"f": "or", "xs": [p[0] for p in parts]}, " or ".join(p[1] for p in parts)

    def rphi(self, depth, scopevars=None, style=None):
        """style: how quantifiers are written - "legacy" (`forall <x> in sel: body`) or "comp", the documented form
        (`all(body for <x> in *sel)`); one formula uses one style (the comprehension form nests only in itself)"""
        scopevars = scopevars or []
        if depth == 0 or self.rnd.random() < 0.5:
            return self.rdisj(scopevars)
        style = style or self.rnd.choice(["legacy", "comp"])
        q = self.rnd.choice(["forall", "exists"])
        var = "<v%d>" % depth
        sel = self.rsel(scopevars)
        body = self.rphi(depth - 1, scopevars + [var], style)
        if style == "comp":
            text = "%s(%s for %s in *%s)" % ("all" if q == "forall" else "any", body[1], var, self.sel_text(sel))
        else:
            text = "%s %s in %s: %s" % (q, var, self.sel_text(sel), body[1])
        return {"f": q, "var": var, "sel": sel, "body": body[0]}, text
