"""code -> spec recorder for real search runs: every tree an operator produces and every emitted solution."""
import contextlib

from fandango.evolution.crossover import SimpleSubtreeCrossover
from fandango.evolution.mutation import SimpleMutation
from fandango.evolution.population import PopulationManager
from fandango.language.grammar.grammar import Grammar

from harness.fan import make, normalise, quiet


@contextlib.contextmanager
def operator_probes(sink):
    """sink(kind, inputs, outputs) is called at the return of each search operator."""
    oc, om, of, og = (SimpleSubtreeCrossover.crossover, SimpleMutation.mutate,
                      PopulationManager.fix_individual, Grammar.fuzz)
    depth = [0]

    def crossover(self, grammar, p1, p2):
        res = oc(self, grammar, p1, p2)
        if res:
            sink("crossover", [p1, p2], list(res))
        return res

    def mutate(self, individual, grammar, evaluate_func, *a, **k):
        res = yield from om(self, individual, grammar, evaluate_func, *a, **k)
        sink("mutate", [individual], [res])
        return res

    def fix(self, individual, suggestion=None):
        res = of(self, individual, suggestion)
        if res[1]:
            sink("repair", [individual], [res[0]])
        return res

    def gfuzz(self, start="<start>", *a, **k):
        depth[0] += 1
        try:
            res = og(self, start, *a, **k)
        finally:
            depth[0] -= 1
        if depth[0] == 0 and k.get("prefix_node") is None and len(a) < 2:
            sink("fuzz:" + (start if isinstance(start, str) else start.format_as_spec()), [], [res])
        return res

    SimpleSubtreeCrossover.crossover, SimpleMutation.mutate = crossover, mutate
    PopulationManager.fix_individual, Grammar.fuzz = fix, gfuzz
    try:
        yield
    finally:
        SimpleSubtreeCrossover.crossover, SimpleMutation.mutate = oc, om
        PopulationManager.fix_individual, Grammar.fuzz = of, og


def record_run(spec, seed, desired=8, generations=8, population=10, max_nodes=None, extra=None):
    """-> (fan object, list of (kind, [in trees], [out trees]), emitted solutions, exception name or None)"""
    quiet()
    normalise(seed)
    events = []
    f = make(spec)
    sols = []
    exc = None
    kw = {}
    if max_nodes is not None:
        kw["max_nodes"] = max_nodes
    if extra:
        kw["extra_constraints"] = extra
    with operator_probes(lambda kind, ins, outs: events.append((kind, ins, outs))):
        try:
            f.fuzz(desired_solutions=desired, max_generations=generations, population_size=population,
                   random_seed=seed, solution_callback=lambda t, i: sols.append(t), **kw)
        except Exception as e:  # noqa
            exc = type(e).__name__
    return f, events, sols, exc
