"""Entry point: python -m harness.run C03 --tier quick"""
import argparse
import importlib
import os
import sys

from harness.common import main_wrapper


def main():
    ap = argparse.ArgumentParser()
    ap.add_argument("prop")
    ap.add_argument("--tier", default=os.environ.get("VERIF_TIER", "quick"), choices=["quick", "thorough"])
    ap.add_argument("--replay", default=None)
    a = ap.parse_args()
    seed = int(os.environ.get("VERIF_SEED", "0") or 0)
    mod = importlib.import_module("harness.checks." + a.prop.lower())
    if a.replay:
        return mod.replay(a.replay)
    return mod.run(a.tier, seed)


if __name__ == "__main__":
    main_wrapper(main)
