"""Shared plumbing: environment, scratch, TLC runner, evidence, findings, verdict lines.

Exit codes of a check: 0 held (known findings are printed), 1 violation, 2 machinery failure.
"""
import atexit
import json
import os
import re
import shutil
import subprocess
import sys
import tempfile
import time

VERIF = os.path.dirname(os.path.dirname(os.path.abspath(__file__)))
REPO = os.environ.get("VERIF_REPO", "/repo")
# where evidence/ and replays/ are written: /verif, unless a tool that runs the checks against a modified scratch copy of
# the repository (tools/seed_matrix.py) redirects them so that the registered evidence is not overwritten
OUT = os.environ.get("VERIF_OUT") or VERIF
SPEC = os.path.join(VERIF, "spec")
PY = "/venv/bin/python"
TLA_JAR = "/opt/veriftools/tla/tla2tools.jar"
COMMUNITY = "/opt/veriftools/tla/CommunityModules-deps.jar"


class Machinery(Exception):
    """Our own breakage (TLC crashed, trace unreadable ...): exit 2, never 1."""


def repo_env(extra=None):
    e = dict(os.environ)
    e["PYTHONPATH"] = os.path.join(REPO, "src") + os.pathsep + VERIF
    e["PYTHONHASHSEED"] = "0"
    e["FANDANGO_DISABLE_UPDATE_CHECK"] = "1"
    e.pop("FANDANGO_RAISE_ALL_EXCEPTIONS", None)
    if extra:
        e.update(extra)
    return e


_scratch = None


def scratch():
    global _scratch
    if _scratch is None:
        base = os.environ.get("VERIF_SCRATCH_BASE") or tempfile.gettempdir()
        _scratch = tempfile.mkdtemp(prefix="verif-", dir=base)
        if not os.environ.get("VERIF_KEEP_SCRATCH"):
            atexit.register(lambda: shutil.rmtree(_scratch, ignore_errors=True))
        else:
            print("scratch kept:", _scratch)
    return _scratch


def subdir(name):
    d = os.path.join(scratch(), name)
    os.makedirs(d, exist_ok=True)
    return d


# ---------------------------------------------------------------- TLC

_tlc_classpath = None


def tlc_classpath():
    global _tlc_classpath
    if _tlc_classpath is None:
        cp = [TLA_JAR]
        d = os.path.dirname(TLA_JAR)
        for f in sorted(os.listdir(d)):
            if f.endswith(".jar") and os.path.join(d, f) != TLA_JAR:
                cp.append(os.path.join(d, f))
        _tlc_classpath = ":".join(cp)
    return _tlc_classpath


class TlcResult:
    def __init__(self, out, rc, wall):
        self.out = out
        self.rc = rc
        self.wall = wall
        self.generated = 0
        self.distinct = 0
        self.depth = 0
        self.coverage = {}
        self.violated = None  # name of violated invariant/property
        self.error = None
        self._parse()

    def _parse(self):
        for line in self.out.splitlines():
            m = re.match(r"(\d+) states generated, (\d+) distinct states found", line)
            if m:
                self.generated = int(m.group(1))
                self.distinct = int(m.group(2))
            m = re.match(r"The depth of the complete state graph search is (\d+)", line)
            if m:
                self.depth = int(m.group(1))
            m = re.match(r"Error: Invariant (\S+) is violated", line)
            if m:
                self.violated = m.group(1)
            m = re.match(r"Error: Action property (\S+) is violated", line)
            if m:
                self.violated = m.group(1)
            if line.startswith("Error: Temporal properties were violated"):
                self.violated = "temporal"
            m = re.match(r"<(\w+) line (\d+), col \d+ to line \d+, col \d+ of module (\w+)>: (\d+):(\d+)", line)
            if m:
                key = m.group(1)
                self.coverage[key] = self.coverage.get(key, 0) + int(m.group(5))
            if line.startswith("Error:") and self.violated is None and self.error is None:
                self.error = line
        # simulation mode prints different statistics
        if self.generated == 0:
            m = re.search(r"The number of states generated: (\d+)", self.out)
            if m:
                self.generated = int(m.group(1))
                self.distinct = self.generated

    def printed(self, tag):
        """All values printed with PrintT(<<tag, json-string>>) -> list of decoded JSON."""
        res = []
        pat = re.compile(r'<<"%s", "(.*)">>$' % re.escape(tag))
        for line in self.out.splitlines():
            m = pat.match(line.strip())
            if m:
                s = m.group(1)
                res.append(json.loads(json.loads('"' + s + '"')))
        return res


def run_tlc(module, cfg=None, workers=8, env=None, timeout=1800, simulate=None, depth=None,
            coverage=False, seed=None, deadlock=False, extra=None, cwd=None, heap="4g"):
    """Run TLC on spec/<module>.tla with spec/<cfg>.cfg. Returns TlcResult.

    Raises Machinery when TLC fails for a reason other than a property violation.
    """
    cwd = cwd or SPEC
    meta = tempfile.mkdtemp(prefix="tlcmeta-", dir=scratch())
    jtmp = os.path.join(scratch(), "jtmp")      # TLC unpacks library modules into java.io.tmpdir and leaves them there
    os.makedirs(jtmp, exist_ok=True)
    cmd = ["java", "-XX:+UseParallelGC", "-Xmx" + heap, "-Djava.io.tmpdir=" + jtmp, "-cp", tlc_classpath(), "tlc2.TLC",
           "-workers", str(workers), "-metadir", meta, "-noGenerateSpecTE"]
    if cfg:
        cmd += ["-config", cfg if cfg.endswith(".cfg") else cfg + ".cfg"]
    if simulate:
        cmd += ["-simulate", simulate]
    if depth:
        cmd += ["-depth", str(depth)]
    if seed is not None:
        cmd += ["-seed", str(seed)]
    if coverage:
        cmd += ["-coverage", "1"]
    if deadlock:
        cmd += ["-deadlock"]
    if extra:
        cmd += extra
    cmd.append(module)
    e = dict(os.environ)
    if env:
        e.update(env)
    t0 = time.time()
    try:
        p = subprocess.run(cmd, cwd=cwd, env=e, stdout=subprocess.PIPE, stderr=subprocess.STDOUT,
                           timeout=timeout, text=True, errors="replace")
    except subprocess.TimeoutExpired as ex:
        raise Machinery("TLC timed out on %s after %ss" % (module, timeout)) from ex
    finally:
        shutil.rmtree(meta, ignore_errors=True)
    r = TlcResult(p.stdout, p.returncode, time.time() - t0)
    if p.returncode != 0 and r.violated is None:
        lines = p.stdout.splitlines()
        first = next((i for i, l in enumerate(lines) if l.startswith("Error")), max(0, len(lines) - 40))
        tail = "\n".join(lines[first:first + 25])
        raise Machinery("TLC failed on %s (rc=%s):\n%s" % (module, p.returncode, tail))
    return r


# ---------------------------------------------------------------- findings and verdicts

def load_findings(prop):
    path = os.path.join(VERIF, "KNOWN_FINDINGS.json")
    if not os.path.exists(path):
        return []
    data = json.load(open(path))
    return [f for f in data["findings"] if prop in f["properties"]]


class Report:
    """Collects violations, matches them with KNOWN_FINDINGS.json, prints verdict lines."""

    def __init__(self, prop, tier, seed, level):
        self.prop = prop
        self.tier = tier
        self.seed = seed
        self.level = level
        self.t0 = time.time()
        self.violations = []  # (key, description, replay-object)
        self.known_hits = {}
        self.coverage = {"samples": []}
        self.assumptions = []
        self.notes = []
        self.findings = load_findings(prop)
        shutil.rmtree(os.path.join(OUT, "replays", prop), ignore_errors=True)

    def violation(self, key, what, replay=None):
        """key: canonical string identifying the failing case (matched exactly with known witnesses)."""
        for f in self.findings:
            if f.get("status") == "known" and key in f.get("witness_keys", []):
                self.known_hits.setdefault(f["id"], (f, []))[1].append(key)
                return False
        if len(self.violations) < 200:
            self.violations.append((key, what, replay))
        else:
            self.violations.append((key, what, None))
        return True

    def add(self, **kw):
        for k, v in kw.items():
            if isinstance(v, int) and isinstance(self.coverage.get(k), int):
                self.coverage[k] += v
            else:
                self.coverage[k] = v

    def sample(self, s, limit=6):
        if len(self.coverage["samples"]) < limit:
            self.coverage["samples"].append(s)

    def tlc(self, r, label=None):
        self.coverage["states"] = self.coverage.get("states", 0) + r.distinct
        self.coverage["transitions"] = self.coverage.get("transitions", 0) + r.generated
        if label:
            self.coverage.setdefault("tlc_runs", []).append(
                {"config": label, "distinct": r.distinct, "generated": r.generated, "depth": r.depth,
                 "wall_s": round(r.wall, 1), "actions": r.coverage or None})

    def finish(self):
        wall = time.time() - self.t0
        ev = {"property_id": self.prop, "tier": self.tier, "seed": self.seed, "level": self.level,
              "coverage": self.coverage, "assumptions": self.assumptions, "wall_s": round(wall, 2),
              "violations": len(self.violations),
              "known_findings_reproduced": sorted(self.known_hits)}
        if self.notes:
            ev["notes"] = self.notes
        os.makedirs(os.path.join(OUT, "evidence"), exist_ok=True)
        with open(os.path.join(OUT, "evidence", self.prop + ".json"), "w") as fh:
            json.dump(ev, fh, indent=1, default=str)
        for fid, (f, keys) in sorted(self.known_hits.items()):
            print("KNOWN-FINDING: property=%s %s %s (%d witness case(s) reproduced)" % (self.prop, fid, f["what"], len(set(keys))))
        if self.violations:
            rdir = os.path.join(OUT, "replays", self.prop)
            os.makedirs(rdir, exist_ok=True)
            for i, (key, what, replay) in enumerate(self.violations[:50]):
                path = os.path.join(rdir, "v%03d.json" % i)
                with open(path, "w") as fh:
                    json.dump({"property": self.prop, "key": key, "what": what, "replay": replay,
                               "seed": self.seed, "tier": self.tier}, fh, indent=1, default=str)
                print("VIOLATION property=%s replay=%s :: %s" % (self.prop, path, what))
            if len(self.violations) > 50:
                print("... %d more violations not listed" % (len(self.violations) - 50))
            return 1
        print("OK property=%s tier=%s wall=%.1fs %s" % (self.prop, self.tier, wall,
              json.dumps({k: v for k, v in self.coverage.items() if isinstance(v, (int, bool))})))
        return 0


def main_wrapper(fn):
    """Run fn() -> exit code, mapping our own failures to exit 2."""
    try:
        rc = fn()
    except Machinery as ex:
        print("MACHINERY-FAILURE: %s" % ex)
        sys.exit(2)
    except Exception:  # noqa
        import traceback
        traceback.print_exc()
        print("MACHINERY-FAILURE: unexpected exception in the harness")
        sys.exit(2)
    sys.exit(rc)


def pmap(fn, items, procs=None):
    """Parallel map over forked worker processes (results in order)."""
    import multiprocessing as mp
    procs = procs or min(16, os.cpu_count() or 4, max(1, len(items)))
    if procs <= 1 or len(items) <= 1:
        return [fn(x) for x in items]
    scratch()       # created in the parent: forked workers inherit it instead of each leaving a directory of its own behind
    ctx = mp.get_context("fork")
    with ctx.Pool(procs) as pool:
        return pool.map(fn, items, chunksize=1)


def ints(s):
    """text -> list of code points (TLC strings are opaque)."""
    if isinstance(s, (bytes, bytearray)):
        return list(s)
    return [ord(c) for c in s]
