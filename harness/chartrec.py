"""Records the chart of a real parse in the vocabulary of spec/EarleyChart.tla (rules as the implementation compiled
them, items as (rule, dot, origin) cores, one column per character)."""


def eligible(g):
    """text grammars without regexes, open-ended or computed repetitions: plain rules only (star / plus get a
    Leo-style shortcut in the implementation that rewrites origins, regexes are scanned by a library)"""
    from harness import gen
    if g.get("flavour") != "text":
        return False

    def ok(n):
        if n["k"] == "re":
            return False
        if n["k"] == "rep" and (n["hi"] >= gen.INF or n["ref"]):
            return False
        if n["k"] == "lit" and (n["kind"] != "text" or any(c > 127 for c in n["v"])):
            return False
        return all(ok(x) for x in n["xs"])
    return all(ok(n) for n in g["rules"].values())


def record(f, word, start="<start>"):
    from fandango.language.grammar import ParsingMode
    from fandango.language.symbols import NonTerminal
    p = f.grammar._parser._iter_parser
    p.new_parse(NonTerminal(start), ParsingMode.COMPLETE)
    ntrees = sum(1 for _t, _c in p.consume(word))
    rules = {}
    for table in (p._rules, p._implicit_rules):
        for nt, alts in table.items():
            for rhs in alts:
                rules[(nt, tuple(rhs))] = None
    rules[(p.implicit_start, ((NonTerminal(start), frozenset()),))] = None
    rl = list(rules)
    idx = {k: i + 1 for i, k in enumerate(rl)}
    nts = {}

    def nid(sym):
        return nts.setdefault(sym, len(nts) + 1)
    out_rules = []
    for (lhs, rhs) in rl:
        r = []
        for sym, _params in rhs:
            if sym.is_non_terminal:
                r.append({"t": False, "id": nid(sym), "cps": []})
            else:
                r.append({"t": True, "id": 0, "cps": [ord(c) for c in str(sym.value())]})
        out_rules.append({"lhs": nid(lhs), "rhs": r})
    chart = []
    for k in range(0, 8 * len(word) + 1, 8):
        cores = set()
        if k < len(p._table):
            for st in p._table[k].states:
                if st.is_incomplete:
                    continue
                key = (st.nonterminal, tuple(st.symbols))
                cores.add((idx.get(key, 0), st._dot, st.position // 8))
        chart.append([{"r": a, "dot": b, "origin": c} for a, b, c in sorted(cores)])
    return {"rules": out_rules, "start": nid(p.implicit_start), "input": [ord(c) for c in word], "chart": chart, "ntrees": ntrees}
