#!/usr/bin/env python3
"""Regenerate the seeded-changes table of DESIGN.md section 10 from seeded/*/meta.json and seeded/matrix.json."""
import glob
import json
import os
import re

V = "/verif"
matrix = json.load(open(V + "/seeded/matrix.json")) if os.path.exists(V + "/seeded/matrix.json") else {}
notes = json.load(open(V + "/seeded/notes.json")) if os.path.exists(V + "/seeded/notes.json") else {}
rows = []
for meta in sorted(glob.glob(V + "/seeded/C*/meta.json")):
    d = json.load(open(meta))
    cid = d["id"]
    readme = os.path.join(os.path.dirname(meta), "README.md")
    title = ""
    if os.path.exists(readme):
        for line in open(readme):
            if line.startswith("#"):
                title = line.lstrip("# ").strip()
                break
    caught = sorted(set(d.get("caught_by", [])) | set(matrix.get(cid, {}).get("caught_by", [])))
    n = notes.get(cid, {})
    # what the change does / needs, in our own words (the README is the sub-agent's)
    if n:
        d["what"], d["needs"] = n.get("what", ""), n.get("needs", d.get("needs", ""))
        if n.get("strengthened"):
            d["strengthened"] = n["strengthened"]
        d["caught_by"] = caught
        json.dump(d, open(meta, "w"), indent=1)
    rows.append("| `%s` | %s | %s | %s | %s |" % (cid, (n.get("what") or title).replace("|", "/"), (n.get("needs") or "see README").replace("|", "/"),
                                             ", ".join(caught) if caught else "**not caught**", n.get("strengthened", "")))
table = ("| change | what it does | needs, to manifest | caught by (quick tier) | strengthened |\n|---|---|---|---|---|\n" + "\n".join(rows) + "\n")
dropped = notes.get("_not_kept", {})
if dropped:
    table += "\nDelivered but not kept:\n\n" + "".join("* `%s` - %s\n" % (k, v) for k, v in sorted(dropped.items()))
p = V + "/DESIGN.md"
s = open(p).read()
begin, end = "<!-- SEEDED TABLE BEGIN -->", "<!-- SEEDED TABLE END -->"
if "SEEDED_TABLE_PLACEHOLDER" in s:
    s = s.replace("SEEDED_TABLE_PLACEHOLDER", begin + "\n" + end)
s = re.sub(re.escape(begin) + ".*?" + re.escape(end), lambda m: begin + "\n" + table + end, s, flags=re.S)
open(p, "w").write(s)
print(table)
