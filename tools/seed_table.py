#!/usr/bin/env python3
"""Regenerate the seeded-changes table of DESIGN.md section 10 from seeded/*/meta.json and seeded/matrix.json."""
import glob
import json
import os
import re

V = "/verif"
matrix = json.load(open(V + "/seeded/matrix.json")) if os.path.exists(V + "/seeded/matrix.json") else {}
notes = json.load(open(V + "/seeded/notes.json")) if os.path.exists(V + "/seeded/notes.json") else {}
rows = []
for meta in sorted(glob.glob(V + "/seeded/C*/meta.json")):
    d = json.load(open(meta))
    cid = d["id"]
    readme = os.path.join(os.path.dirname(meta), "README.md")
    title = ""
    if os.path.exists(readme):
        for line in open(readme):
            if line.startswith("#"):
                title = line.lstrip("# ").strip()
                break
    caught = sorted(set(d.get("caught_by", [])) | set(matrix.get(cid, {}).get("caught_by", [])))
    n = notes.get(cid, {})
    rows.append("| `%s` | %s | %s | %s | %s |" % (cid, (n.get("what") or title).replace("|", "/"), (n.get("needs") or "see README").replace("|", "/"),
                                             ", ".join(caught) if caught else "**not caught**", n.get("strengthened", "")))
table = ("| change | what it does | needs, to manifest | caught by (quick tier) | strengthened |\n|---|---|---|---|---|\n" + "\n".join(rows) + "\n")
unconfirmed = sorted(k for k in matrix if not os.path.exists(V + "/seeded/%s/meta.json" % k))
if unconfirmed:
    table += "\nDelivered but not kept (patch no longer applies to the repaired tree, or the demonstration / suite comparison could not be confirmed): " + ", ".join("`%s`" % u for u in unconfirmed) + ".\n"
p = V + "/DESIGN.md"
s = open(p).read()
begin, end = "<!-- SEEDED TABLE BEGIN -->", "<!-- SEEDED TABLE END -->"
if "SEEDED_TABLE_PLACEHOLDER" in s:
    s = s.replace("SEEDED_TABLE_PLACEHOLDER", begin + "\n" + end)
s = re.sub(re.escape(begin) + ".*?" + re.escape(end), begin + "\n" + table + end, s, flags=re.S)
open(p, "w").write(s)
print(table)
