#!/usr/bin/env python3
"""Regenerate the findings table of DESIGN.md Appendix B from KNOWN_FINDINGS.json."""
import json
import re

V = "/verif"
d = json.load(open(V + "/KNOWN_FINDINGS.json"))
rows = []
for e in sorted(d["findings"], key=lambda e: int(e["id"][1:])):
    line = e.get("line") or ""
    what = e["what"]
    if e["status"] == "fixed":
        m = re.match(r"fixed: property=\S+ \S+ (.*)", line)
        what = m.group(1) if m else what
    rows.append("| %s | %s | %s | %s |" % (e["id"], ", ".join(e["properties"]), "fixed `%s`" % e["commit"] if e["status"] == "fixed" else "known",
                                       what.replace("|", "\\|")))
table = "| id | properties | status | failing input / history |\n|---|---|---|---|\n" + "\n".join(rows) + "\n"
p = V + "/DESIGN.md"
s = open(p).read()
s2 = re.sub(r"\| id \| properties \| status \| failing input / history \|\n\|---\|---\|---\|---\|\n(?:\|.*\n)+", lambda m: table, s)
open(p, "w").write(s2)
print(len(rows), "rows")
