#!/usr/bin/env python3-vt
import json, sys, glob, jsonschema
jsonschema.validate(json.load(open('/verif/MANIFEST.json')), json.load(open('/root/.vp/MANIFEST.schema.json')))
es = json.load(open('/root/.vp/EVIDENCE.schema.json'))
m = json.load(open('/verif/MANIFEST.json'))
for c in m['checks']:
    try:
        jsonschema.validate(json.load(open(c['evidence_file'])), es); print("ok", c['property_id'])
    except Exception as e:
        print("BAD", c['property_id'], str(e)[:300])
claimed = {c['property_id'] for c in m['checks']} | {c['property_id'] for c in m.get('not_applicable', [])}
allp = {json.loads(l)['id'] for l in open('/verif/properties.jsonl')}
print("unaccounted:", sorted(allp - claimed))
