#!/bin/sh
# Offline set-up: verify tools, parse every TLA+ module, import the working tree.
set -e
cd "$(dirname "$0")/.."
command -v java >/dev/null
test -f /opt/veriftools/tla/tla2tools.jar
fail=0
for f in spec/*.tla; do
  m=$(basename "$f" .tla)
  if ! (cd spec && java -cp /opt/veriftools/tla/tla2tools.jar:/opt/veriftools/tla/CommunityModules-deps.jar tla2sany.SANY "$m.tla" >/tmp/verif-sany.$$ 2>&1); then
    echo "SANY failed on $m"; tail -20 /tmp/verif-sany.$$; fail=1
  fi
done
rm -f /tmp/verif-sany.$$
PYTHONPATH=/repo/src:/verif PYTHONHASHSEED=0 FANDANGO_DISABLE_UPDATE_CHECK=1 /venv/bin/python -c "import harness.fan; print('fandango imported from', harness.fan.Fandango.__module__)"
# build the C++ spec reader from the working tree once (C14 reuses it while the sources are unchanged)
PYTHONPATH=/repo/src:/verif /venv/bin/python -m harness.cppbuild || fail=1
exit $fail
