#!/usr/bin/env python3
"""Run the pinned test-suite against the working tree (guard off) and compare with BASELINE.json.
usage: baseline.py [repo_dir]   -> exit 0 iff every stable_pass test passes."""
import json, os, subprocess, sys, tempfile, xml.etree.ElementTree as ET
repo = sys.argv[1] if len(sys.argv) > 1 else "/repo"
base = json.load(open("/root/.vp/BASELINE.json"))
out = tempfile.mktemp(suffix=".xml")
env = dict(os.environ, PYTHONPATH=os.path.join(repo, "src"), FANDANGO_DISABLE_UPDATE_CHECK="1")
env.pop("FANDANGO_VERIF", None)
subprocess.run(["/venv/bin/python", "-m", "pytest", "-q", "-p", "no:cacheprovider", "--timeout=900",
                "--continue-on-collection-errors", "-n", "8" if os.environ.get("BASELINE_XDIST") else "0",
                "--junitxml=" + out] if os.environ.get("BASELINE_XDIST") else
               ["/venv/bin/python", "-m", "pytest", "-q", "-p", "no:cacheprovider", "--timeout=900",
                "--continue-on-collection-errors", "--junitxml=" + out],
               cwd=repo, env=env, stdout=subprocess.DEVNULL, stderr=subprocess.DEVNULL)
passed = set()
for tc in ET.parse(out).getroot().iter("testcase"):
    if not any(ch.tag in ("failure", "error", "skipped") for ch in tc):
        passed.add(tc.get("classname") + "::" + tc.get("name"))
os.unlink(out)
missing = [t for t in base["stable_pass"] if t not in passed]
print("baseline stable_pass=%d passed_now=%d missing=%d" % (len(base["stable_pass"]), len(passed), len(missing)))
for m in missing[:30]:
    print("  MISSING", m)
sys.exit(1 if missing else 0)
