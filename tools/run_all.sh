#!/bin/sh
# run every registered quick (or $1=thorough) check; prints one line per check
TIER=${1:-quick}
cd /verif
for p in $(python3 -c "import json;print(' '.join(c['property_id'] for c in json.load(open('MANIFEST.json'))['checks']))"); do
  s=$(date +%s)
  out=$(./check $p --tier $TIER 2>&1); rc=$?
  e=$(date +%s)
  echo "$p rc=$rc $((e-s))s $(echo "$out" | grep -c '^KNOWN-FINDING') known; $(echo "$out" | grep '^VIOLATION\|MACHINERY' | head -2 | cut -c1-200)"
done
