#!/usr/bin/env python3
"""Run the quick checks against seeded changes: seed_matrix.py [-j N] C02-a C02-b ... [--checks=C02,C07] | --all

Each change is applied to its own scratch worktree of /repo's HEAD (under /tmp, removed afterwards); the checks are
pointed at it with VERIF_REPO and write their evidence / replay files to a scratch directory (VERIF_OUT), so neither
/repo nor the registered evidence is touched and several changes can be tried at once.  (`git -C /repo apply <patch>;
./check Cxx; git -C /repo checkout -- .` is the same experiment on /repo itself.)  Results: seeded/matrix.json and the
`caught_by` / `checks_run_with_patch` fields of the change's meta.json.
"""
import json
import os
import shutil
import subprocess
import sys
from concurrent.futures import ThreadPoolExecutor

RELATED = {"C01": ["C01", "C02"], "C02": ["C02", "C07", "C11"], "C03": ["C03"], "C04": ["C04", "C12", "C05"], "C05": ["C05", "C04"],
           "C06": ["C06"], "C07": ["C07", "C02"], "C08": ["C08"], "C09": ["C09"], "C10": ["C10"], "C11": ["C11"], "C12": ["C12"],
           "C13": ["C13"], "C14": ["C14"], "C15": ["C15"], "C16": ["C16"], "C17": ["C17"], "C18": ["C18"], "C19": ["C19"], "C20": ["C20"]}
args = [a for a in sys.argv[1:] if not a.startswith("-")]
checks_override = None
jobs_n = 3
argv = sys.argv[1:]
for i, a in enumerate(argv):
    if a.startswith("--checks="):
        checks_override = a.split("=", 1)[1].split(",")
    if a == "-j":
        jobs_n = int(argv[i + 1])
        args.remove(argv[i + 1])
if "--all" in argv:
    args = sorted(d for d in os.listdir("/verif/seeded") if d[:1] == "C" and os.path.exists("/verif/seeded/%s/patch.diff" % d))
mpath = "/verif/seeded/matrix.json"
matrix = json.load(open(mpath)) if os.path.exists(mpath) else {}


def one(ch):
    prop, m = ch.split("-")
    patch = None
    for cand in ("/verif/seeded/%s/patch.diff" % ch, "/verif/seeded/_incoming/%s/%s/patch.diff" % (prop, m)):
        if os.path.exists(cand):
            patch = cand
            break
    if patch is None:
        return ch, None
    wt, out = "/tmp/mx_%s" % ch, "/tmp/mx_out_%s" % ch
    subprocess.run("git -C /repo worktree remove --force %s 2>/dev/null; rm -rf %s %s; git -C /repo worktree add --detach %s HEAD -q" % (wt, wt, out, wt), shell=True)
    try:
        ap = subprocess.run("git -C %s apply %s" % (wt, patch), shell=True, capture_output=True, text=True)
        if ap.returncode != 0:
            # the patch was written against an earlier commit: fall back to a 3-way merge of its hunks
            ap = subprocess.run("git -C %s apply -3 %s && ! git -C %s diff --name-only --diff-filter=U | grep -q ." % (wt, patch, wt),
                                shell=True, capture_output=True, text=True)
        if ap.returncode != 0:
            print(ch, "patch does not apply:", ap.stderr.strip()[:200], flush=True)
            return ch, {"applies": False}
        res = {}
        for c in (checks_override or RELATED[prop]):
            env = dict(os.environ, VERIF_REPO=wt, VERIF_OUT=out)
            p = subprocess.run("cd /verif && ./check %s --tier quick" % c, shell=True, capture_output=True, text=True, env=env)
            v = [l for l in p.stdout.splitlines() if l.startswith("VIOLATION")]
            res[c] = {"rc": p.returncode, "violations": len(v), "first": v[0][:300] if v else None,
                      "machinery": next((l[:200] for l in p.stdout.splitlines() if l.startswith("MACHINERY")), None)}
            print(ch, c, "rc=%d" % p.returncode, "violations=%d" % len(v), (v[0][:160] if v else res[c]["machinery"] or ""), flush=True)
        return ch, {"applies": True, "checks": res, "caught_by": [c for c, r in res.items() if r["rc"] == 1 and r["violations"] > 0],
                    "base": subprocess.run("git -C /repo rev-parse --short HEAD", shell=True, capture_output=True, text=True).stdout.strip()}
    finally:
        subprocess.run("git -C /repo worktree remove --force %s; rm -rf %s" % (wt, out), shell=True)


with ThreadPoolExecutor(jobs_n) as ex:
    for ch, r in ex.map(one, args):
        if r is None:
            print(ch, "no patch")
            continue
        matrix[ch] = r
        json.dump(matrix, open(mpath, "w"), indent=1)
        meta = "/verif/seeded/%s/meta.json" % ch
        if os.path.exists(meta) and r.get("applies"):
            d = json.load(open(meta))
            d["caught_by"] = sorted(r["caught_by"])
            d["checks_run_with_patch"] = {c: ("VIOLATION (exit 1)" if x["rc"] == 1 else "exit %d" % x["rc"]) for c, x in r["checks"].items()}
            d["checks_run_at"] = r["base"]
            json.dump(d, open(meta, "w"), indent=1)
json.dump(matrix, open(mpath, "w"), indent=1)
