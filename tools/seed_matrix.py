#!/usr/bin/env python3
"""Run checks against seeded changes: seed_matrix.py C02-a C02-b ... [--checks C02,C07]
For each change: git -C /repo apply, run the quick check(s), git -C /repo checkout -- .  Results go to
seeded/matrix.json (change -> {check: caught?}) and into the change's meta.json when it has been validated."""
import json
import os
import subprocess
import sys

RELATED = {"C01": ["C01", "C02"], "C02": ["C02", "C07", "C11"], "C03": ["C03"], "C04": ["C04", "C12", "C05"], "C05": ["C05", "C04"],
           "C06": ["C06"], "C07": ["C07", "C02"], "C08": ["C08"], "C09": ["C09"], "C10": ["C10"], "C11": ["C11"], "C12": ["C12"],
           "C13": ["C13"], "C14": ["C14"], "C15": ["C15"], "C16": ["C16"], "C17": ["C17"], "C18": ["C18"], "C19": ["C19"], "C20": ["C20"]}
args = [a for a in sys.argv[1:] if not a.startswith("--")]
checks_override = None
for a in sys.argv[1:]:
    if a.startswith("--checks="):
        checks_override = a.split("=", 1)[1].split(",")
mpath = "/verif/seeded/matrix.json"
matrix = json.load(open(mpath)) if os.path.exists(mpath) else {}
for ch in args:
    prop, m = ch.split("-")
    patch = None
    for cand in ("/verif/seeded/%s/patch.diff" % ch, "/verif/seeded/_incoming/%s/%s/patch.diff" % (prop, m)):
        if os.path.exists(cand):
            patch = cand
            break
    if patch is None:
        print(ch, "no patch")
        continue
    subprocess.run("git -C /repo checkout -- .", shell=True)
    ap = subprocess.run("git -C /repo apply %s" % patch, shell=True, capture_output=True, text=True)
    if ap.returncode != 0:
        print(ch, "patch does not apply:", ap.stderr.strip()[:200])
        matrix[ch] = {"applies": False}
        continue
    res = {}
    try:
        for c in (checks_override or RELATED[prop]):
            p = subprocess.run("cd /verif && ./check %s --tier quick" % c, shell=True, capture_output=True, text=True)
            v = [l for l in p.stdout.splitlines() if l.startswith("VIOLATION")]
            res[c] = {"rc": p.returncode, "violations": len(v), "first": v[0][:300] if v else None,
                      "machinery": next((l[:200] for l in p.stdout.splitlines() if l.startswith("MACHINERY")), None)}
            print(ch, c, "rc=%d" % p.returncode, "violations=%d" % len(v), (v[0][:160] if v else res[c]["machinery"] or ""), flush=True)
    finally:
        subprocess.run("git -C /repo checkout -- .", shell=True)
    matrix[ch] = {"applies": True, "checks": res, "caught_by": [c for c, r in res.items() if r["rc"] == 1 and r["violations"] > 0]}
    json.dump(matrix, open(mpath, "w"), indent=1)
    meta = "/verif/seeded/%s/meta.json" % ch
    if os.path.exists(meta):
        d = json.load(open(meta))
        d["caught_by"] = sorted(set(d.get("caught_by", [])) | set(matrix[ch]["caught_by"]))
        d["checks_run_with_patch"] = {c: ("VIOLATION (exit 1)" if r["rc"] == 1 else "exit %d" % r["rc"]) for c, r in res.items()}
        json.dump(d, open(meta, "w"), indent=1)
json.dump(matrix, open(mpath, "w"), indent=1)
