#!/usr/bin/env python3
"""Generate /verif/MANIFEST.json from the table below (single place to edit)."""
import json
import os

HERE = os.path.dirname(os.path.dirname(os.path.abspath(__file__)))

# property -> (level, text, note, technique, design_ref)
CHECKS = {
    "C01": ("model_checking",
            "FanIR.tla defines what a derivation is (Valid: every inner node's children are matched by its rule - alternatives, "
            "concatenations, bounded/open/computed repetitions, literals, class regexes); real runs of plain grammar fuzzing and "
            "of the evolutionary search over a seeded family of specs rendered from grammar IR are recorded (every operator "
            "result, population member, emitted solution) and every recorded tree is judged by TLC (Trace_Tree.tla); Search.tla "
            "models the operators (crossover, mutation, repair of computed counts) as edits on trees with origin tags, TLC checks "
            "that emitted trees are derivations and its operator histories are replayed through the real operators; the family includes "
            "generator-defined symbols (generators returning text, numbers and nested-tuple trees)",
            "bounded: 60 (quick) / 1200 (thorough) generated specs x settings; computed repetition counts are demanded of "
            "emitted solutions only (intermediate trees are judged against the grammar as the reader declares it, {1,}); "
            "trusted: TLC, the IR renderer",
            "TLA+ operator model (TLC exhaustive, histories replayed into the real operators) + TLA+ definition of derivations evaluated by TLC on trees recorded from real runs (trace validation)"),
    "C02": ("model_checking",
            "Evaluator.tla (invariant EmittedSat) model-checked by TLC; real searches in production mode on specs whose where / "
            "extra constraints come from the constraint IR generator (incl. atoms that raise) and on specs with computed "
            "repetitions; every emitted tree is re-judged from scratch by TLC: Constraint.Sat for each constraint "
            "(Trace_Constraint, event E) and FanIR.Valid with the computed counts (Trace_Tree)",
            "bounded: 60+30+10 (quick) / 900+400+120 (thorough) searches (generated constraints / computed repetitions incl. counts that "
            "may be 0 / a count field tied to a second field by an equality); only constraints expressible in the IR; no soft constraints; "
            "trusted: TLC, the IR renderers",
            "TLA+ constraint semantics + derivation definition evaluated by TLC on solutions recorded from real searches"),
    "C03": ("model_checking",
            "Evaluator.tla (acceptance rule on exact counts, fitness cache, solution set) model-checked by TLC; the full "
            "(h,r,hs,rs) case table written by TLC is replayed on the real Evaluator; real search runs on specs with every "
            "(h,r) mix are recorded call by call and validated by the TLC trace specification Trace_Eval",
            "bounded: h,r <= 9 (quick) / 16 (thorough); satisfaction in end-to-end runs judged by brand-new constraint "
            "objects; trusted: TLC, CPython",
            "TLA+ model (TLC exhaustive) + TLC-generated case table replayed into the code + TLC trace validation of recorded evaluator calls"),
    "C11": ("model_checking",
            "Evaluator.tla with in-place edits and key collisions (Coherent; stale/collide sanity configs fail); every TLC-enumerated "
            "history of take / edit-in-place / evaluate over four abstract trees is replayed on a real Evaluator with real "
            "constraints and compared with the specification and a brand-new evaluator; all derivations of ambiguous words are "
            "evaluated in both orders by one evaluator; every evaluate_individual return of real searches (two runs per spec "
            "object, nested quantifiers, computed repetitions) is compared with a fresh evaluator and validated by Trace_Eval",
            "bounded: histories of <= 5 operations (35% sample, quick) / every history of <= 7 operations (312,500, thorough), 3 ambiguous specs, 12 / 240 search runs; failing "
            "parts compared by position and constraint kind",
            "TLA+ model (TLC exhaustive) + TLC-enumerated histories replayed into the real evaluator + TLC trace validation"),
    "C12": ("model_checking",
            "ParserCache.tla model-checked by TLC (store-on-exhaustion discipline satisfies HistoryIndependent on every "
            "history up to the bound, the implementation-shaped discipline is shown to violate it); every TLC-enumerated "
            "request history is replayed on one real grammar object per history and compared request by request with a fresh object",
            "bounded: histories <= 3 (quick) / 4 (thorough) steps over 13 request kinds, 4 scenarios instantiating the "
            "abstract keys; trusted: TLC, CPython",
            "TLA+ model (TLC exhaustive) + all TLC-enumerated request histories replayed into the real parser cache"),
    "C04": ("model_checking",
            "Lang.tla (leftmost-derivation machine) explored exhaustively by TLC enumerates the language of each generated "
            "grammar up to a length bound - an oracle independent of Fandango; words and near-misses (single-unit edits, decided "
            "outside the language by the enumeration) are parsed by the real parser; every yielded tree with its input is judged "
            "by TLC (Trace_Tree: FanIR.Valid, start symbol, yield = input via TreeValueRef, no helper symbols); inputs outside "
            "the language must yield nothing; API level: every tree Fandango.parse yields for specs with generated where-clauses "
            "(over TLC-enumerated words) is judged by Constraint.Sat, and for specs with computed repetitions - exact and "
            "two-sided {lo,int(<n>)} - by FanIR.Valid with the counts enforced",
            "bounded: 40 (quick) / 600 (thorough) grammars (text, bytes, 8-bit fields), words <= 5 / 6 units; grammars with "
            "empty-deriving bodies under open repetitions excluded (C06 finding); trusted: TLC",
            "TLC-enumerated languages (derivation machine) replayed into the real parser + TLC trace validation of yielded trees"),
    "C05": ("model_checking",
            "(ii) every word of the TLC-enumerated language (Lang.tla) that is in the stated class (one derivation, regex leaves "
            "maximal munch) must be accepted by the real parser; (i) every tree emitted by real search runs is serialised, parsed "
            "back through Fandango.parse, checked with cli.utils.validate and the re-parsed trees are judged by TLC (Trace_Tree); "
            "the corpus includes grammars in which a named empty-deriving symbol is expected at several places of one input "
            "position (Earley.tla: AcceptsAtEnd fails without the catch-up of predict, holds with the guarded one); (iii) for "
            "grammars that compile to plain rules the chart of the real parse (item cores per column) is compared with the closure "
            "EarleyChart.tla computes over the implementation's own compiled rules, and the model's accept verdict with the enumeration",
            "bounded: 40 / 500 grammars, words <= 5 / 6 units, 40 / 600 search runs; the class is computed per word from the "
            "enumeration (narrower than the property's, never wider); CPython re trusted for maximal munch",
            "TLC-enumerated languages replayed into the real parser + round trip of generated trees judged by TLC"),
    "C06": ("model_checking",
            "Earley.tla models the chart parser with two admission rules and three treatments of an empty-deriving symbol predicted "
            "after its completion, in every processing order; TLC checks <>[]Quiescent under weak fairness and acceptance at "
            "quiescence, and shows unbounded growth for the implementation's admission rule exactly on the cyclic-empty-derivation "
            "configurations (and for an unguarded catch-up on a left recursion followed by a nullable symbol); every word and "
            "near-miss of the Lang.tla-enumerated corpus, hand-written templates and the family recursion (left / right / nested) x "
            "tail (operator / nullable symbol / both) x shape of the nullable symbol x operand (literal / nullable prefix / "
            "length-prefixed field) is parsed by the real parser (first tree, forest, prefix mode) with admissions counted at Column.add "
            "against a budget 1000x above the item bound of a terminating chart parser; recorded non-terminating classes are "
            "replayed as pinned witnesses",
            "bounded: 30 / 400 grammars + 9 templates + 48 / 720 family members, inputs <= 5 / 6 units (family: generated members "
            "<= 9 characters + random strings); non-termination = budget overrun (>= 200000 admissions or 20-30 s CPU, enforced by a "
            "CPU-time signal so that loops which admit nothing are caught too; terminating runs stay below 2500 admissions) or an endless forest; F16/F17/F29 known",
            "TLA+ liveness model (TLC, fairness) + budgeted real parses over TLC-enumerated inputs"),
    "C07": ("model_checking",
            "Constraint.tla states the meaning of selectors (. .. [i] [i:j]), atoms that may raise, counts, groups, formula-level "
            "and/or and nested forall/exists, eager and lazy; trees are the derivations TLC enumerates with Lang.tla for three "
            "grammars plus fuzzed trees; generated constraints are built by Fandango's own front end and check()ed eagerly and "
            "lazily; every (constraint, tree, verdict) triple is judged by TLC (Trace_Constraint)",
            "bounded: 210 (quick) / 3600 (thorough) constraints of depth <= 2 / 3 x ~50 / 160 trees per grammar; calibrated "
            "readings documented in DESIGN.md (int of an empty selection is 0; raising selector = not satisfied)",
            "TLA+ semantics evaluated by TLC on verdicts recorded from the real constraint objects over TLC-enumerated trees"),
    "C08": ("translation_validation",
            "PyAst.tla defines the program space; TLC enumerates every constructor in every operator / field-presence variant with "
            "atomic children (D1), every expression slot of every constructor filled with every D1 expression (D2), every legal "
            "parameter list composed from its parts (positional-only / ordinary / star / keyword-only / **) and every display / "
            "argument list of <= 3 entries composed entry by entry - 9429 expressions, 1240 statements; each is canonicalised by CPython's ast.unparse, embedded as helper code and inside a "
            "`where (...)` clause, pushed through Fandango's front end (C++ reader; the Python reader on a sample) and compared "
            "with CPython's reading by ast.dump; outcome must be identical or rejected; harvested stdlib statements go the same way",
            "bounded: all D1, 22% (quick) / all (thorough) D2, 150 / 3000 harvested statements; constructs recorded as findings "
            "(f-string literal text / braces / nested quotes, numeric underscores, `=` specifier, constraint-level `not`) are "
            "pinned by their depth-1 witness and excluded from deeper programs; oracle = CPython's ast",
            "TLC-enumerated program space + translation validation against CPython's ast"),
    "C09": ("model_checking",
            "TreeValue.tla: reference value semantics (bits/bytes/text over the leaf sequence) and the implementation-shaped "
            "value object (append / flush / views) folded subtree by subtree; TLC checks that they agree for every leaf "
            "sequence, nesting and order of view requests within the bound; the TLC-written case table is replayed on real "
            "DerivationTree objects in every request order, and values of really emitted binary trees are judged by TLC",
            "bounded: <= 3 units over 10 leaf kinds (incl. an 8-bit group, non-ASCII text, empty text), 6 families of shapes, "
            "request orders <= 3; nothing asserted for unaligned trees; int() pinned only for bit strings and digit text",
            "TLA+ model (TLC exhaustive) + TLC-generated case table replayed into real trees + TLC judging recorded trees"),
    "C10": ("model_checking",
            "TreeHeap.tla: an object heap of tree nodes (children, parent links, cached size and hash) with one action per "
            "public operation written the way the code performs it; TLC checks Inv_Size, Inv_Hash, Inv_Parent and PureOps on "
            "every history within the bound; all TLC-enumerated histories and deeper simulated behaviours are replayed on real "
            "DerivationTree objects comparing the projected object graph after each step, plus hash/== against recomputation; "
            "heaps recorded at every operator call of real search runs are validated by the trace specification Trace_Heap",
            "bounded: <= 5 nodes / 4 operations exhaustive in TLC (6/5 thorough), histories of 3 operations from 4 seed forests "
            "replayed exhaustively, simulated depth 7; slice nodes are views and exempt from the parent-link clause",
            "TLA+ model (TLC exhaustive + simulation) + behaviours replayed into real trees + TLC trace validation of recorded heaps"),
    "C13": ("model_checking",
            "Feeding.tla (TLC) enumerates every composition of an input of n <= 7 units into fragments; the real IterativeParser is "
            "driven along every schedule for every in-class word of the Lang.tla-enumerated corpus (text incl. non-ASCII, bytes, "
            "16-bit fields): complete parses after the last fragment must equal those of the whole-input schedule and "
            "can_continue() must hold on every proper prefix of a word of the language; shape grammars (every way two neighbouring "
            "terminals of one rule meet a cut) and rich-regex templates (optional groups, alternation; written-out words, the "
            "whole-input feed as oracle) go through all compositions as well",
            "bounded: words <= 6 / 7 units, all 2^(n-1) schedules; words outside the maximal-munch class only as pinned witnesses "
            "(finding F18); chart-level conformance (Earley.tla) is not part of this check",
            "TLC-enumerated feeding schedules and TLC-enumerated languages replayed into the real incremental parser"),
    "C14": ("translation_validation",
            "programs = spec texts; IndentLexer.tla states the layout algorithm both hand-written lexer bases implement and TLC "
            "evaluates it on every enumerated line structure; the NEWLINE/INDENT/DEDENT stream of the Python lexer and the layout "
            "leaves of the parse trees of BOTH front ends must equal the specification's stream; every text of the corpus (shipped "
            ".fan files, generated families, token-level perturbations, valid and invalid) goes through both front ends: both "
            "reject, or both accept with identical grammar, constraints, Python code and generators",
            "bounded: def header + <= 2 / 3 lines of 16 kinds (714 / ~11k structures), 212 / ~6.5k corpus texts; the C++ module is "
            "rebuilt from the working tree (cmake+make, cached by source hash) and loaded instead of the prebuilt one",
            "TLA+ layout specification evaluated by TLC and compared with both lexers + differential validation of the two readers"),
    "C15": ("translation_validation",
            "programs = rule bodies, literals, annotated/generator specs and constraints; SpecPrint.tla enumerates every rule body to "
            "depth 2 over all operators (3279) plus seeded deeper ones; each is read by the real front end, printed with repr(grammar), "
            "re-read, both sides converted to IR and compared by TLC (SpecPrint.Same: equality modulo associativity, open bounds stay "
            "open); printed constraints are re-read and their verdicts judged against Constraint.Sat of the original on "
            "TLC-enumerated trees",
            "bounded: depth-2 bodies (all repetition-rooted + 35% of the rest quick; all thorough), 150 / 3000 deeper bodies, 28 nasty "
            "literals + 160 / 4000 generated specs with one- and two-character literals over 19 code-point classes (quotes, backslash, "
            "controls, non-ASCII inside and outside the basic plane, spec syntax) as text / bytes / regex, the same text in two kinds; constraints limited to atoms and counts (quantifier and and/or printing are findings F33/F34)",
            "TLC-enumerated program space + print/re-read translation validation judged by TLC"),
    "C16": ("model_checking",
            "Generators.tla (argument replacement re-generates the field, generated text is never edited, a replacement whose "
            "regenerated value does not fit the field's rule is refused; the 'only the last argument' slip is shown to violate "
            "FieldIsGenerated) model-checked by TLC; every TLC-enumerated history of argument "
            "replacements / attempted edits is replayed with DerivationTree.replace on a real tree and compared with the spec "
            "state; real searches on specs whose generators log (symbol, arguments, return value): every generator-defined field "
            "of every operator result, population member and solution is judged by Trace_Gen.tla",
            "bounded: histories of 3 steps (2.5% sample quick, all thorough) from 27 initial states; 38 / 180 searches over 11 + 4 "
            "constraint sets (incl. same-symbol equalities across a generated field); constant, random, one/two-argument and "
            "partial generators; generator-defined ARGUMENTS only as pinned witnesses (F31); F31, F32 known",
            "TLA+ model (TLC exhaustive) + TLC-enumerated histories replayed into real trees + TLC trace validation of logged generator calls"),
    "C17": ("exploration",
            "two fresh processes per configuration (same spec, settings, random seed incl. 0, PYTHONHASHSEED) record the event stream "
            "of the run (operator results, solutions as emitted, returned list, first parses of ambiguous words); "
            "Trace_Lockstep.tla walks the two streams in lock-step and names the first diverging event",
            "32 (quick) / 800 (thorough) configurations over generated specs, generator specs, quantifier specs, computed "
            "repetitions and an ambiguous parse-heavy spec; the TLA+ part is the lock-step comparison only",
            "pairs of real processes compared in lock-step by a TLC trace specification"),
    "C18": ("model_checking",
            "Globals.tla makes the process-wide state explicit (repetition cap, IO environment key); TLC shows NonInterference for "
            "a run-scoped cap and its violation for the leaking cap; every TLC-enumerated history of operations on A and B is "
            "replayed in a fresh process and B's event stream is compared in lock-step (Trace_Lockstep.tla) with B running alone",
            "bounded: histories <= 5 operations (20 sampled quick, all 500+ thorough) x 6 / 16 spec pairs (incl. a pair whose A "
            "mutates large individuals while B needs many generations, and a pair of spec files that include different files under "
            "one relative name); Globals.tla also carries the shared operator object's state and the include binding (sanity "
            "configurations opleak / incleak violate NonInterference); protocol-mode isolation only as a pinned witness (F11)",
            "TLA+ model (TLC exhaustive) + TLC-enumerated histories replayed in fresh processes, differential lock-step comparison"),
    "C19": ("model_checking",
            "Protocol.tla (derivation machine over the message alphabet) explored by TLC gives every viable message history with "
            "its completeness for each generated protocol grammar; NextMsgs/Complete are read off the state graph and the real "
            "PacketForecaster is walked in lock-step (history trees built by mounting real messages at the forecast path): the "
            "offered (sender, recipient, type) set and the completeness flag must coincide at every history",
            "bounded: 64 (quick) / 604 (thorough) protocols (alternatives with shared prefixes, options, bounded/open repetitions "
            "of sequences, sessions, 2-3 parties, message types re-used with other parties) plus their slices to party A and to "
            "party B (Protocol.tla SlicedRules), histories up to depth 5 / 6; open repetitions are unrolled further than any "
            "explored history, so the process-wide generation cap never binds; every message involves the fuzzer-side party",
            "TLC state graph of the message-level language walked in lock-step through the real forecaster"),
    "C20": ("model_checking",
            "ProtocolRun.tla models the run loop with its environment (per-connection FIFO channels, arbitrary arrival interleaving, "
            "peer faults); TLC checks NoSpuriousError, ExactlyOnceInOrder, BadRemoteEndsRun and, under fairness, Terminates / "
            "BadRemoteLeadsToError; TLC-enumerated arrival schedules and fault behaviours drive the real IO loop in-process under a "
            "virtual clock with scripted external parties; the send / deliver / end events of every run are validated by Trace_Run.tla "
            "(prefix of an interaction, message texts in the constrained language, sent and received data exactly once in order, "
            "valid peers never fail, invalid ones always do)",
            "bounded: 3 protocols (two external senders; request/response with an optional second round; a state in which either "
            "side may speak), 60 sampled of the 243 schedules of length 5 (quick) / all 2187 of length 7 (thorough; peer faults on every 9th), 4-6 peer faults; sockets and threads replaced by a "
            "deterministic scheduler; one sender to two fuzzer-side recipients only as pinned witness F20",
            "TLA+ model with environment (TLC, safety + liveness) + TLC-generated schedules driving the real loop + TLC trace validation"),
}

NOT_YET = "check not built yet in this round (work in progress, see DESIGN.md section 8); not claimed"
NOT_APPLICABLE = {}


def main():
    props = [json.loads(l)["id"] for l in open(os.path.join(HERE, "properties.jsonl"))]
    checks = []
    for p in props:
        if p not in CHECKS:
            continue
        level, text, note, tech = CHECKS[p]
        checks.append({
            "property_id": p,
            "quick_cmd": "./check %s --tier quick" % p,
            "thorough_cmd": "./check %s --tier thorough" % p,
            "evidence_file": "/verif/evidence/%s.json" % p,
            "replay_cmd_template": "./check %s --replay {path}" % p,
            "engine": "tlc",
            "level_claimed": {"category": level, "text": text, "design_ref": "DESIGN.md section 4, %s" % p},
            "level_note": note,
            "technique": tech,
        })
    na = [{"property_id": p, "reason": NOT_APPLICABLE.get(p, NOT_YET)} for p in props if p not in CHECKS]
    m = {
        "version": 1,
        "setup_cmd": "cd /verif && ./tools/setup.sh",
        "hooks": {
            "guard": "FANDANGO_VERIF",
            "enable": "no in-repo hooks: observation is done by wrappers the harness installs at run time "
                      "(harness/probes.py); checks import the working tree with PYTHONPATH=/repo/src",
            "baseline_off_cmd": "cd /repo && PYTHONPATH=/repo/src /venv/bin/python -m pytest -ra -q -p no:cacheprovider "
                                "--timeout=900 --continue-on-collection-errors",
            "source_commits": [],
            "add_only": True,
        },
        "engines": [
            {"name": "tlc", "path": "/opt/veriftools/tla/tla2tools.jar", "serves_properties": sorted(CHECKS),
             "kind_free_text": "explicit-state model checker for the TLA+ specification in /verif/spec "
                               "(exhaustive configs, case tables, simulation, trace validation)"},
            {"name": "harness", "path": "/verif/harness", "serves_properties": sorted(CHECKS),
             "kind_free_text": "Python conformance drivers: spec->code replay of TLC-enumerated behaviours, "
                               "code->spec trace recording (wrappers at linearization points)"},
        ],
        "checks": checks,
        "not_applicable": na,
        "notes": "TLA+ specification in /verif/spec; DESIGN.md explains approach, findings and which seeded changes are caught.",
    }
    with open(os.path.join(HERE, "MANIFEST.json"), "w") as fh:
        json.dump(m, fh, indent=1)
    print("claimed:", sorted(CHECKS), "unclaimed:", [x["property_id"] for x in na])


if __name__ == "__main__":
    main()
