#!/bin/sh
# mut_try.sh <patch> <check> [<check> ...] : run quick checks against a scratch worktree with the patch applied (does not touch /repo)
P="$1"; shift
D=$(mktemp -d /tmp/mutXXXX); rmdir $D
git -C /repo worktree add --detach $D HEAD -q || exit 2
( cd $D && git apply "$P" ) || { echo "patch does not apply"; git -C /repo worktree remove --force $D; exit 3; }
for c in "$@"; do
  VERIF_REPO=$D VERIF_OUT=/tmp/mut_out /verif/check $c --tier quick 2>&1 | grep -E "^VIOLATION|^OK|^MACH|^KNOWN" | cut -c1-260 | head -${MUT_LINES:-4}
done
git -C /repo worktree remove --force $D
