#!/usr/bin/env python3
"""Validate one seeded change delivered under seeded/_incoming/<prop>/<m>/ and, if everything is confirmed,
store it as seeded/<prop>-<m>/ with meta.json.

Confirms in a scratch worktree of /repo (HEAD): the patch applies, demo.py PASSes without and FAILs with the patch,
and the pinned test-suite pass set is unchanged.  Usage: seed_validate.py C01 a [--skip-tests]
"""
import json
import os
import shutil
import subprocess
import sys

prop, m = sys.argv[1], sys.argv[2]
skip_tests = "--skip-tests" in sys.argv
src = "/verif/seeded/_incoming/%s/%s" % (prop, m)
wt = "/tmp/wt/val_%s_%s" % (prop, m)
env = dict(os.environ, PYTHONPATH=wt + "/src", PYTHONHASHSEED="0", FANDANGO_DISABLE_UPDATE_CHECK="1")


def sh(cmd, **kw):
    return subprocess.run(cmd, shell=True, stdout=subprocess.PIPE, stderr=subprocess.STDOUT, text=True, **kw)


subprocess.run("git -C /repo worktree remove --force %s 2>/dev/null; git -C /repo worktree add --detach %s HEAD" % (wt, wt), shell=True,
               stdout=subprocess.DEVNULL, stderr=subprocess.DEVNULL)
res = {"property": prop, "mutant": m, "base": sh("git -C /repo rev-parse --short HEAD").stdout.strip()}
try:
    demo = os.path.join(src, "demo.py")
    r0 = sh("timeout 900 /venv/bin/python %s" % demo, env=env, cwd=wt)
    res["demo_clean_rc"] = r0.returncode
    ap = sh("git -C %s apply %s/patch.diff" % (wt, src))
    res["applies"] = ap.returncode == 0
    if not res["applies"]:
        res["apply_error"] = ap.stdout[-300:]
    else:
        r1 = sh("timeout 900 /venv/bin/python %s" % demo, env=env, cwd=wt)
        res["demo_patched_rc"] = r1.returncode
        res["demo_patched_tail"] = r1.stdout[-400:]
        if not skip_tests:
            t = sh("/verif/tools/baseline.py %s" % wt)
            res["tests"] = t.stdout.strip().splitlines()[:6]
            res["tests_ok"] = t.returncode == 0
            if not res["tests_ok"]:
                # tests that time out under machine load (real sockets / wall-clock budgets): re-run the missing ones alone
                missing = [l.split("MISSING", 1)[1].strip() for l in res["tests"] if "MISSING" in l]
                still = []
                for m_ in missing:
                    mod, _, rest = m_.partition("::")
                    parts = mod.split(".")
                    # tests.test_x.Class::name  or  tests.test_x::name
                    path = "/".join(parts[:2]) + ".py"
                    node = path + "::" + "::".join(parts[2:] + [rest])
                    ok = False
                    for _ in range(3):
                        r_ = sh("/venv/bin/python -m pytest -q -p no:cacheprovider --timeout=900 '%s'" % node, env=env, cwd=wt)
                        if r_.returncode == 0:
                            ok = True
                            break
                    if not ok:
                        still.append(m_)
                res["tests_rerun_alone"] = {"missing_in_full_run": missing, "still_failing_alone": still}
                res["tests_ok"] = len(missing) <= 3 and not still
    ok = res.get("applies") and res["demo_clean_rc"] == 0 and res.get("demo_patched_rc") == 1 and (skip_tests or res.get("tests_ok"))
    res["confirmed"] = bool(ok)
finally:
    subprocess.run("git -C /repo worktree remove --force %s" % wt, shell=True, stdout=subprocess.DEVNULL, stderr=subprocess.DEVNULL)
print(json.dumps(res, indent=1))
if res["confirmed"]:
    dst = "/verif/seeded/%s-%s" % (prop, m)
    shutil.rmtree(dst, ignore_errors=True)
    os.makedirs(dst)
    for f in ("patch.diff", "demo.py", "README.md"):
        if os.path.exists(os.path.join(src, f)):
            shutil.copy(os.path.join(src, f), dst)
    readme = open(os.path.join(src, "README.md")).read() if os.path.exists(os.path.join(src, "README.md")) else ""
    meta = {"property": prop, "id": "%s-%s" % (prop, m), "breaks": prop,
            "needs": "see README.md (written by the independent sub-agent that produced the change)",
            "ran": {"base_commit": res["base"], "demo_on_clean_tree": "exit %d (PASS)" % res["demo_clean_rc"],
                    "demo_with_patch": "exit %d (FAIL)" % res["demo_patched_rc"],
                    "test_suite_with_patch": res.get("tests", "skipped")},
            "caught_by": []}
    json.dump(meta, open(os.path.join(dst, "meta.json"), "w"), indent=1)
sys.exit(0 if res["confirmed"] else 1)
