SPECIFICATION Spec
CONSTANTS
  G <- mcG
  Depth = 3
  MaxOps = 0
  SameSymbolOnly = TRUE
  Record = FALSE
INVARIANT Inv_Valid
CONSTRAINT Small
CHECK_DEADLOCK FALSE
