----------------------------- MODULE MC_TreeHeap -----------------------------
EXTENDS TreeHeap, Json, IOUtils
mcMaxNodes == atoi(IOEnv.MAXNODES)
mcMaxOps == atoi(IOEnv.MAXOPS)
mcSyms == {"<a>", "<b>"}
mcSenders == {"", "P"}
N(s, p) == [sym |-> s, parent |-> p]
mcSeeds == { <<>>,
             << N("<a>", 0), N("<b>", 1), N("<a>", 1) >>,
             << N("<a>", 0), N("<b>", 1), N("<a>", 2), N("<b>", 1) >>,
             << N("<a>", 0), N("<a>", 1), N("<b>", 1), N("<b>", 0) >> }
Emit == IF Record /\ steps = mcMaxOps THEN PrintT(<<"HIST", ToJson(hist)>>) ELSE TRUE
=============================================================================
