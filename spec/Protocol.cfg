SPECIFICATION Spec
CONSTRAINT Emit
CHECK_DEADLOCK FALSE
