SPECIFICATION Spec
CONSTANT MaxN = 7
INVARIANT FragmentationIndependent
CONSTRAINT Emit
CHECK_DEADLOCK FALSE
