SPECIFICATION Spec
CONSTANTS
  Rules <- RTwice
  NT = {"S","X","O"}
  Start = "S"
  Input <- InTwice
  PrefixMode = FALSE
  AdmitByCore = FALSE
  CatchUp = "guarded"
  AnyOrder = TRUE
  MaxSize = 40
INVARIANT Bounded
INVARIANT AcceptsAtEnd
PROPERTY Terminates
CHECK_DEADLOCK FALSE
