------------------------------- MODULE Protocol -------------------------------
(***************************************************************************)
(* The message-level language of a protocol spec: message nonterminals      *)
(* <sender:recipient:type> are abstracted to terminals (as                  *)
(* StateGrammarConverter does) and the leftmost-derivation machine of       *)
(* Lang.tla is run over this message alphabet.  Every reachable state of    *)
(* the machine stands for a partial interaction; its history `hist` (the    *)
(* messages emitted so far) is a viable prefix of the protocol, and it is   *)
(* complete iff the derivation has finished.                                *)
(*   NextMsgs(h) = labels of the out-edges of all states with history h     *)
(*   Complete(h) = some state with history h is final                       *)
(* Grammar IR as in FanIR, with leaves  [k |-> "msg", v |-> <<id>>]         *)
(* (id = index of the (sender, recipient, type) triple).  Several grammars  *)
(* per run (Init picks one).  Cap = bound on open-ended repetitions (the    *)
(* harness lowers nodes.MAX_REPETITIONS to the same value, so that "after   *)
(* the last allowed repetition" is reached).                                *)
(***************************************************************************)
EXTENDS Naturals, Sequences, FiniteSets, TLC, Json, IOUtils, SequencesExt

Gs == JsonDeserialize(IOEnv.GRAMMARS)
MaxMsgs == atoi(IOEnv.MAXMSGS)
MaxNodes == atoi(IOEnv.MAXNODES)
Cap == atoi(IOEnv.CAP)

VARIABLES gi, stack, nodes, done, hist
vars == <<gi, stack, nodes, done, hist>>

(* Slicing a protocol to a set of parties (language/parse/slice_parties.py with ignore_receivers: messages whose  *)
(* sender is not kept are deleted): a deleted alternative disappears, a deleted part of a sequence is dropped, a  *)
(* repetition of something deleted is deleted, a sequence / alternation with nothing left is deleted, and a rule   *)
(* whose body is deleted is deleted wherever it is referenced (fixed point).  keep = <<>> means "not sliced".      *)
DEL == [k |-> "del"]
RECURSIVE Sl(_,_,_)
Sl(n, P, dead) ==
  CASE n.k = "msg" -> IF n.snd \in P THEN n ELSE DEL
    [] n.k = "nt"  -> IF n.s \in dead THEN DEL ELSE n
    [] n.k = "rep" -> LET b == Sl(n.xs[1], P, dead) IN IF b.k = "del" THEN DEL ELSE [n EXCEPT !.xs = <<b>>]
    [] n.k \in {"alt", "cat"} ->
         LET ks == SelectSeq([i \in 1..Len(n.xs) |-> Sl(n.xs[i], P, dead)], LAMBDA x : x.k # "del")
         IN IF ks = <<>> THEN DEL ELSE [n EXCEPT !.xs = ks]
    [] OTHER -> n
RECURSIVE Dead(_,_,_,_)
Dead(rules, P, dead, k) ==
  LET d2 == { s \in DOMAIN rules : Sl(rules[s], P, dead).k = "del" } IN
  IF d2 = dead \/ k = 0 THEN dead ELSE Dead(rules, P, d2, k - 1)
SlicedRules(g) ==
  IF g.keep = <<>> THEN g.rules
  ELSE LET P == ToSet(g.keep)
           dead == Dead(g.rules, P, {}, 10)
       IN [s \in DOMAIN g.rules \ dead |-> Sl(g.rules[s], P, dead)]
G == [gid |-> Gs[gi].gid, start |-> Gs[gi].start, rules |-> SlicedRules(Gs[gi])]

Init == /\ gi \in 1..Len(Gs)
        /\ Gs[gi].start \in DOMAIN SlicedRules(Gs[gi])
        /\ stack = << [todo |-> << SlicedRules(Gs[gi])[Gs[gi].start] >>] >>
        /\ nodes = 1 /\ done = FALSE /\ hist = <<>>

Top == stack[Len(stack)]
SetTop(f) == [stack EXCEPT ![Len(stack)] = f]
Rest(f) == Tail(f.todo)
Copies(x, k) == [j \in 1..k |-> x]

Step ==
  /\ ~done /\ Len(stack) > 0
  /\ LET f == Top IN
     IF f.todo = <<>> THEN
        /\ stack' = SubSeq(stack, 1, Len(stack) - 1)
        /\ done' = (Len(stack) = 1)
        /\ UNCHANGED <<gi, nodes, hist>>
     ELSE LET n == Head(f.todo) IN
        CASE n.k = "alt" -> \E j \in 1..Len(n.xs) :
                 /\ stack' = SetTop([f EXCEPT !.todo = <<n.xs[j]>> \o Rest(f)])
                 /\ UNCHANGED <<gi, nodes, done, hist>>
          [] n.k = "cat" -> /\ stack' = SetTop([f EXCEPT !.todo = n.xs \o Rest(f)])
                            /\ UNCHANGED <<gi, nodes, done, hist>>
          [] n.k = "rep" -> \E c \in n.lo .. (IF n.hi > Cap THEN Cap ELSE n.hi) :
                 /\ stack' = SetTop([f EXCEPT !.todo = Copies(n.xs[1], c) \o Rest(f)])
                 /\ UNCHANGED <<gi, nodes, done, hist>>
          [] n.k = "nt" -> /\ nodes < MaxNodes
                           /\ stack' = Append(SetTop([f EXCEPT !.todo = Rest(f)]), [todo |-> << G.rules[n.s] >>])
                           /\ nodes' = nodes + 1 /\ UNCHANGED <<gi, done, hist>>
          [] n.k = "msg" -> /\ Len(hist) < MaxMsgs
                            /\ stack' = SetTop([f EXCEPT !.todo = Rest(f)])
                            /\ hist' = Append(hist, n.v[1])
                            /\ UNCHANGED <<gi, nodes, done>>
Next == Step
Spec == Init /\ [][Next]_vars
(* every reachable state reports its history and whether the interaction is complete *)
Emit == PrintT(<<"H", G.gid, ToJson(hist), done>>)
=============================================================================
