------------------------------ MODULE Trace_Tree ------------------------------
(* Trace specification judging recorded derivation trees (code -> spec; C01, C04, C05, C13, C16).   *)
(* ndjson events (IOEnv.TRACE_FILE):                                                               *)
(*  {"ev":"G","gid":g,"g":{"start":..,"rules":{sym: node}}}        a grammar (IR)                   *)
(*  {"ev":"T","gid":g,"tid":t,"idx":i,"start":sym,"tree":{..},     a tree some operation produced   *)
(*   "input":{"kind":"none"|"text"|"bytes"|"bits","val":[..]}}      (+ the input it was parsed from) *)
(* Clauses: the tree is a derivation of the grammar (Valid), its root is the requested start        *)
(* symbol, and - for parsed trees - its yield equals the input exactly.                             *)
EXTENDS Naturals, Sequences, FiniteSets, TLC, Json, IOUtils, FanIR, TreeValueRef

Log == ndJsonDeserialize(IOEnv.TRACE_FILE)

VARIABLES i, gs, bad, ntrees
vars == <<i, gs, bad, ntrees>>
Init == i = 1 /\ gs = <<>> /\ bad = <<>> /\ ntrees = 0

AsLeaf(l) == [k |-> IF l.kind = "text" THEN "str" ELSE l.kind, v |-> l.val]
YieldMatches(t, input) ==
  LET ls == [j \in 1..Len(Leaves(t)) |-> AsLeaf(Leaves(t)[j])] IN
  CASE input.kind = "none"  -> TRUE
    [] input.kind = "text"  -> AllText(ls) /\ YieldVals(t) = input.val
    [] input.kind = "bytes" -> RefBytesDefined(ls) /\ RefBytes(ls) = input.val
    [] input.kind = "bits"  -> Aligned(ls) /\ RefBits(ls) = input.val

Step == LET e == Log[i] IN
  /\ i <= Len(Log)
  /\ i' = i + 1
  /\ IF e.ev = "G"
       THEN /\ gs' = (e.gid :> e.g) @@ gs
            /\ UNCHANGED <<bad, ntrees>>
       ELSE LET G == gs[e.gid]
                Bad(c) == [tid |-> e.tid, idx |-> e.idx, clause |-> c]
                why == WhyInvalid(G, e.tree)
                fails ==
                  (IF why # "" THEN <<Bad(why)>> ELSE <<>>) \o
                  (IF e.tree.sym # e.start THEN <<Bad("wrong-start-symbol")>> ELSE <<>>) \o
                  (IF ~YieldMatches(e.tree, e.input) THEN <<Bad("yield-differs-from-input")>> ELSE <<>>)
            IN /\ bad' = bad \o fails
               /\ ntrees' = ntrees + 1
               /\ UNCHANGED gs
Spec == Init /\ [][Step]_vars
Final == i <= Len(Log) \/ (PrintT(<<"BAD", ToJson(bad)>>) /\ PrintT(<<"CONSUMED", i - 1, ntrees>>))
=============================================================================
