--------------------------- MODULE MC_Evaluator ---------------------------
EXTENDS Evaluator, Json
\* four trees: 1 satisfies everything, 2 misses a hard constraint, 3 misses the repetition bound, 4 nothing
T == 1..4
mcSatH == [t \in T |-> CASE t = 1 -> {1, 2} [] t = 2 -> {1} [] t = 3 -> {1, 2} [] OTHER -> {}]
mcSatR == [t \in T |-> CASE t = 1 -> {1} [] t = 2 -> {1} [] t = 3 -> {} [] OTHER -> {}]
KeyId == [t \in T |-> t]
KeyCollide == [t \in T |-> IF t = 4 THEN 1 ELSE t]     \* tree 4 hashes like tree 1
NoEdit == [t \in T |-> t]
Edits == [t \in T |-> CASE t = 1 -> 2 [] t = 2 -> 1 [] t = 3 -> 4 [] OTHER -> 3]
Bound == Len(emitLog) <= 3
EmitHist == ~Record \/ Len(hist) < MaxOps \/ PrintT(<<"HIST", ToJson(hist)>>)
=============================================================================
