SPECIFICATION Spec
CONSTANTS
  Keys <- mcKeys
  Forest <- mcForest
  Discipline = "spec"
  MaxHist <- mcMaxHist
  EmitHistories = FALSE
INVARIANT HistoryIndependent
INVARIANT StoredComplete
CHECK_DEADLOCK FALSE
