SPECIFICATION Spec
CONSTANTS
  D = 5
  Streams = 2
CONSTRAINT Emit
CHECK_DEADLOCK FALSE
