------------------------------ MODULE IndentLexer ------------------------------
(***************************************************************************)
(* The layout algorithm of the .fan lexer bases (FandangoLexerBase.py and   *)
(* cpp_parser/FandangoLexerBase.cpp share it): NEWLINE / INDENT / DEDENT    *)
(* tokens from indentation, with an indent stack, a bracket depth and the   *)
(* look-ahead rule "the line that follows is blank or a comment (and is not *)
(* the very end of the input) => this line break is skipped".               *)
(* Input = a sequence of abstract lines [ws, kind, delta]:                  *)
(*   ws    indentation as a sequence of 32 (blank) / 9 (tab)                *)
(*   kind  "code" | "blank" | "comment"                                     *)
(*   delta change of the bracket depth caused by the line's code            *)
(* Output = the stream of token classes "c" (a run of code tokens), "NL",   *)
(* "IN", "DE".  Both real lexers and both parsers are compared with it.     *)
(***************************************************************************)
EXTENDS Naturals, Integers, Sequences, FiniteSets, TLC, Json, IOUtils, SequencesExt

Width(ws) == FoldLeft(LAMBDA c, ch : IF ch = 9 THEN c + (8 - (c % 8)) ELSE c + 1, 0, ws)

(* what the lexer sees right after the indentation of the line that follows line i *)
\* first character class of a line's content: "nl" for a blank line (its line break), "hash" for a comment, "code" otherwise;
\* "none" at the end of the input
FirstClass(ln, hasNl) == CASE ln.kind = "blank" -> (IF hasNl THEN "nl" ELSE "none")
                           [] ln.kind = "comment" -> "hash"
                           [] OTHER -> "code"
\* is there at least one more character after that first one?
HasSecond(lines, j, finalNl) ==
  LET ln == lines[j] hasNl == j < Len(lines) \/ finalNl IN
  CASE ln.kind = "blank" -> hasNl /\ (j < Len(lines))          \* after the blank line's break: anything left at all?
    [] OTHER -> TRUE                                            \* comments and code are longer than one character

RECURSIVE Scan(_,_,_,_,_,_)
\* Scan(lines, finalNl, i, indents, opened, out): process line i and the line break after it
Scan(lines, finalNl, i, indents, opened, out) ==
  IF i > Len(lines) THEN
     \* end of input: one NEWLINE and all pending DEDENTs
     IF indents = <<>> THEN out ELSE out \o <<"NL">> \o [k \in 1..Len(indents) |-> "DE"]
  ELSE
    LET ln == lines[i]
        out1 == IF ln.kind = "code" /\ (out = <<>> \/ out[Len(out)] # "c") THEN Append(out, "c") ELSE out
        opened1 == IF ln.kind = "code" THEN opened + ln.delta ELSE opened
        hasNl == i < Len(lines) \/ finalNl
    IN IF ~hasNl THEN Scan(lines, finalNl, i + 1, indents, opened1, out1)
       ELSE
         LET spaces == IF i < Len(lines) THEN lines[i + 1].ws ELSE <<>>
             la1 == IF i < Len(lines) THEN FirstClass(lines[i + 1], (i + 1 < Len(lines)) \/ finalNl) ELSE "none"
             la2 == i < Len(lines) /\ la1 # "none" /\ HasSecond(lines, i + 1, finalNl)
             skip == opened1 > 0 \/ (la2 /\ la1 \in {"nl", "hash"})
         IN IF skip THEN Scan(lines, finalNl, i + 1, indents, opened1, out1)
            ELSE
              LET ind == Width(spaces)
                  prev == IF indents = <<>> THEN 0 ELSE indents[Len(indents)]
                  RECURSIVE Pop(_,_)
                  Pop(st, o) == IF st # <<>> /\ st[Len(st)] > ind THEN Pop(SubSeq(st, 1, Len(st) - 1), Append(o, "DE")) ELSE <<st, o>>
              IN IF ind > prev THEN Scan(lines, finalNl, i + 1, Append(indents, ind), opened1, out1 \o <<"NL", "IN">>)
                 ELSE IF ind < prev THEN LET r == Pop(indents, Append(out1, "NL")) IN Scan(lines, finalNl, i + 1, r[1], opened1, r[2])
                 ELSE Scan(lines, finalNl, i + 1, indents, opened1, Append(out1, "NL"))
Layout(lines, finalNl) == Scan(lines, finalNl, 1, <<>>, 0, <<>>)

(* the enumerated input space *)
L(ws, kind, delta, t) == [ws |-> ws, kind |-> kind, delta |-> delta, t |-> t]
WS == { <<32, 32>>, <<32, 32, 32, 32>>, <<9>>, <<32, 32, 32, 32, 32, 32>>, <<32, 9>> }
Body == { L(w, "code", 0, "x = 1") : w \in WS } \cup { L(w, "code", 0, "if x:") : w \in {<<32, 32>>, <<32, 32, 32, 32>>} }
        \cup { L(<<>>, "blank", 0, ""), L(<<32, 32>>, "blank", 0, ""), L(<<32, 32, 32, 32>>, "comment", 0, "# c"), L(<<>>, "comment", 0, "# c"),
               L(<<32, 32, 32, 32>>, "code", 1, "y = (1,"), L(<<32, 32>>, "code", -1, "2)") }
Head0 == L(<<>>, "code", 0, "def f():")
TailOpt == { <<>>, <<L(<<>>, "code", 0, "z = 3")>> }
MaxBody == atoi(IOEnv.MAXBODY)
Inputs == { <<Head0>> \o b \o tl : b \in UNION { [1..k -> Body] : k \in 1..MaxBody }, tl \in TailOpt }
\* a last line that is blank, empty and has no line break is no line at all (the same text is produced by the shorter input)
Degenerate(inp, fn) == ~fn /\ inp[Len(inp)].kind = "blank" /\ inp[Len(inp)].ws = <<>>
Table == { [lines |-> inp, fn |-> fn, expect |-> Layout(inp, fn)] : <<inp, fn>> \in { p \in Inputs \X BOOLEAN : ~Degenerate(p[1], p[2]) } }
ASSUME ndJsonSerialize(IOEnv.OUT, SetToSeq(Table)) /\ PrintT(<<"cases", Cardinality(Table)>>)
VARIABLE x
Init == x = 0
Next == UNCHANGED x
=============================================================================
