SPECIFICATION Spec
CONSTANTS
  Digits = {1, 4, 7}
  BodyLens = {1, 2, 3, 10}
  FitMax = 9
  RegenRule = "last"
  MaxOps = 3
  Record = FALSE
INVARIANT FieldIsGenerated
CHECK_DEADLOCK FALSE
