----------------------------- MODULE TreeHeapOps -----------------------------
(* Constant-level operators over a heap of tree nodes h : id -> [sym, snd, ch, parent, sizeC, ...], shared by  *)
(* the model (TreeHeap) and the trace specification for recorded heaps (Trace_Heap).                          *)
EXTENDS Naturals, Sequences, FiniteSets, SequencesExt
(* structure *)
RECURSIVE Struct(_,_)
Struct(h, n) == <<h[n].sym, h[n].snd, [i \in 1..Len(h[n].ch) |-> Struct(h, h[n].ch[i])]>>
RECURSIVE TrueSize(_,_)
TrueSize(h, n) == 1 + FoldLeft(LAMBDA acc, c : acc + TrueSize(h, c), 0, h[n].ch)
RECURSIVE Desc(_,_)          \* n and everything below it, in pre-order
Desc(h, n) == <<n>> \o FoldLeft(LAMBDA acc, c : acc \o Desc(h, c), <<>>, h[n].ch)

(* the bookkeeping invariants of C10 for the nodes in A (slice nodes are views and exempt) *)
SizeOK(h, A, sliceSym)   == \A n \in A : h[n].sym # sliceSym => h[n].sizeC = TrueSize(h, n)
ParentOK(h, A, sliceSym) == \A n \in A : h[n].sym # sliceSym => \A i \in 1..Len(h[n].ch) : h[h[n].ch[i]].parent = n
=============================================================================
