SPECIFICATION Spec
CONSTANTS
  Keys <- mcKeys
  Forest <- mcForest
  Discipline = "spec"
  MaxHist <- mcMaxHist
  EmitHistories = TRUE
INVARIANT HistoryIndependent
INVARIANT StoredComplete
CHECK_DEADLOCK FALSE
CONSTRAINT Emit
