----------------------------- MODULE Evaluator -----------------------------
(***************************************************************************)
(* The evaluator of the evolutionary search (evolution/evaluation.py):      *)
(* which evaluated trees are handed out as solutions, and what the two      *)
(* memo tables (fitness cache, solution set) may contain.                   *)
(*                                                                          *)
(* Trees are abstract: a tree is known by its structural key and by the set *)
(* of hard / repetition-bound constraints it satisfies.  The acceptance     *)
(* rule is stated on exact counts - no arithmetic; the floating point       *)
(* normalisation exists only in the code, and the conformance checks        *)
(* (table replay, trace validation) are what compare the two.               *)
(*                                                                          *)
(* Properties: C02 (EmittedSat), C03 (Complete, FirstSightEmits), C11       *)
(* (Coherent), plus EmitOnce.                                               *)
(***************************************************************************)
EXTENDS Naturals, Sequences, FiniteSets, TLC, EvaluatorOps

CONSTANTS
  Trees,        \* finite set of abstract trees
  NH, NR,       \* number of hard / repetition-bound constraints of the spec
  SatH, SatR,   \* Trees -> SUBSET (1..NH) / SUBSET (1..NR): constraints satisfied by a tree
  KeyOf,        \* Trees -> Keys: the structural key (hash((root, tree)) in the code)
  EditTo,       \* Trees -> Trees: the tree an in-place edit turns a tree into (identity = no edits)
  InvalidateOnEdit, \* TRUE: an edit drops the object's cached hash (as invalidate_hash does)
  IoMode,       \* TRUE: start_next_message may clear solution set and cache (IoEvaluator)
  Record,       \* TRUE: keep the history of operations (for replay into the real Evaluator)
  MaxOps        \* bound on the length of recorded histories

VARIABLES
  obj,       \* the caller's object: which abstract tree it currently is (edits change it)
  objKey,    \* the key the object currently reports (stale when an edit did not invalidate)
  fit,       \* fitness cache: key -> result record
  solSet,    \* keys already handed out
  emitLog,   \* sequence of trees handed out, in order
  evaluated, \* trees evaluated so far
  last,      \* result returned by the last Evaluate (what the caller sees)
  hist       \* recorded operations: [op, arg, emits, all]
vars == <<obj, objKey, fit, solSet, emitLog, evaluated, last, hist>>

-----------------------------------------------------------------------------
(* The rule, as operators over explicit arguments (shared with Trace_Eval). *)


Rec(op, arg, emits, all) == IF Record THEN (Len(hist) < MaxOps /\ hist' = Append(hist, [op |-> op, arg |-> arg, emits |-> emits, all |-> all]))
                           ELSE UNCHANGED hist
Fresh(t) == [hs |-> Cardinality(SatH[t]), rs |-> Cardinality(SatR[t]),
             all |-> AllSatCounts(NH, NR, Cardinality(SatH[t]), Cardinality(SatR[t])),
             failing |-> <<(1..NH) \ SatH[t], (1..NR) \ SatR[t]>>]
AllSat(t) == Fresh(t).all

-----------------------------------------------------------------------------
Init ==
  /\ obj \in Trees
  /\ objKey = KeyOf[obj]
  /\ fit = <<>>
  /\ solSet = {}
  /\ emitLog = <<>>
  /\ evaluated = {}
  /\ last = [kind |-> "none"]
  /\ hist = IF Record THEN <<[op |-> "take", arg |-> obj, emits |-> FALSE, all |-> FALSE]>> ELSE <<>>

(* evaluate_individual on a cache miss: compute, maybe emit, store. *)
EvalMiss ==
  /\ objKey \notin DOMAIN fit
  /\ LET res == Fresh(obj) IN
       /\ fit' = fit @@ (objKey :> res)
       /\ IF Accept(res.all, objKey, solSet)
            THEN /\ solSet' = solSet \cup {objKey}
                 /\ emitLog' = Append(emitLog, obj)
            ELSE UNCHANGED <<solSet, emitLog>>
       /\ last' = [kind |-> "miss", tree |-> obj, res |-> res]
       /\ Rec("eval", obj, Accept(res.all, objKey, solSet), res.all)
  /\ evaluated' = evaluated \cup {obj}
  /\ UNCHANGED <<obj, objKey>>

(* evaluate_individual on a cache hit: the stored result, silently. *)
EvalHit ==
  /\ objKey \in DOMAIN fit
  /\ last' = [kind |-> "hit", tree |-> obj, res |-> fit[objKey]]
  /\ Rec("eval", obj, FALSE, fit[objKey].all)
  /\ evaluated' = evaluated \cup {obj}
  /\ UNCHANGED <<obj, objKey, fit, solSet, emitLog>>

(* The caller takes another tree object. *)
Switch(t) ==
  /\ obj' = t /\ objKey' = KeyOf[t] /\ t # obj
  /\ Rec("take", t, FALSE, FALSE)
  /\ UNCHANGED <<fit, solSet, emitLog, evaluated, last>>

(* In-place edit of the object (set_children / add_child ...). *)
Edit ==
  /\ EditTo[obj] # obj
  /\ obj' = EditTo[obj]
  /\ objKey' = IF InvalidateOnEdit THEN KeyOf[EditTo[obj]] ELSE objKey
  /\ Rec("edit", EditTo[obj], FALSE, FALSE)
  /\ UNCHANGED <<fit, solSet, emitLog, evaluated, last>>

(* IoEvaluator.start_next_message *)
StartNextMessage ==
  /\ IoMode
  /\ fit' = <<>> /\ solSet' = {}
  /\ Rec("next_message", 0, FALSE, FALSE)
  /\ UNCHANGED <<obj, objKey, emitLog, evaluated, last>>

Next == EvalMiss \/ EvalHit \/ Edit \/ StartNextMessage \/ \E t \in Trees : Switch(t)
Spec == Init /\ [][Next]_vars

-----------------------------------------------------------------------------
Emitted == {emitLog[i] : i \in 1..Len(emitLog)}

(* C02 *) EmittedSat == \A t \in Emitted : AllSat(t)
(* C03 *) Complete == IoMode \/ \A t \in evaluated : AllSat(t) => \E u \in Emitted : KeyOf[u] = KeyOf[t]
(* C11 *) Coherent == last.kind \in {"miss", "hit"} => last.res = Fresh(last.tree)
          KeysInjective == \A t, u \in Trees : KeyOf[t] = KeyOf[u] => t = u
          EmitOnce == IoMode \/ \A i, j \in 1..Len(emitLog) : KeyOf[emitLog[i]] = KeyOf[emitLog[j]] => i = j
(* C03 as an action property: the first evaluation of an all-satisfying tree emits it *)
FirstSightEmits ==
  [][ (EvalMiss /\ AllSat(obj) /\ objKey \notin solSet) => (Len(emitLog') = Len(emitLog) + 1 /\ emitLog'[Len(emitLog')] = obj) ]_vars
=============================================================================
