---------------------------- MODULE EvaluatorOps ----------------------------
(* The acceptance rule of the evaluator as constant-level operators, shared by *)
(* the model (Evaluator), the case table (EvalTable) and the trace             *)
(* specification (Trace_Eval).                                                 *)
EXTENDS Naturals
\* h / r constraints of each class, hs / rs of them satisfied
AllSatCounts(h, r, hs, rs) == hs = h /\ rs = r
\* a tree is handed out iff everything is satisfied and its key was not handed out before
Accept(all, key, sol) == all /\ key \notin sol
=============================================================================
