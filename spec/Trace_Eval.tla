------------------------------ MODULE Trace_Eval ------------------------------
(* Trace specification for recorded evaluator calls (code -> spec).              *)
(* Input: ndjson, one event per line (IOEnv.TRACE_FILE):                         *)
(*   {"ev":"New","tid":t,"h":H,"r":R}            a fresh Evaluator object        *)
(*   {"ev":"Eval","tid":t,"idx":n,"key":k,       one evaluate_individual return  *)
(*    "hsat":[b..],"rsat":[b..],                 fresh per-constraint verdicts   *)
(*    "ny":yields,"res":"..","fresh":".."}       result returned / fresh result  *)
(* Keys are small integers assigned by the harness by *structure* of the tree    *)
(* (not by the code's hash).  The verdict is total: every event is consumed and  *)
(* each failed clause is appended to `bad`; Final prints them.                   *)
EXTENDS Naturals, Sequences, FiniteSets, TLC, Json, IOUtils, EvaluatorOps

Log == ndJsonDeserialize(IOEnv.TRACE_FILE)

VARIABLES i, h, r, sol, seen, bad, nEval
vars == <<i, h, r, sol, seen, bad, nEval>>

Count(bs) == Cardinality({j \in 1..Len(bs) : bs[j]})

Init == i = 1 /\ h = 0 /\ r = 0 /\ sol = {} /\ seen = <<>> /\ bad = <<>> /\ nEval = 0

New == LET e == Log[i] IN
  /\ e.ev = "New"
  /\ h' = e.h /\ r' = e.r /\ sol' = {} /\ seen' = <<>>
  /\ UNCHANGED <<bad, nEval>>

Eval == LET e == Log[i]
            all == AllSatCounts(Len(e.hsat), Len(e.rsat), Count(e.hsat), Count(e.rsat))
            hit == e.key \in DOMAIN seen
            expectEmit == Accept(all, e.key, sol) /\ ~hit
            B(c) == [tid |-> e.tid, idx |-> e.idx, clause |-> c]
            fails ==
              (IF Len(e.hsat) # h \/ Len(e.rsat) # r THEN <<B("constraint-count")>> ELSE <<>>) \o
              (IF e.ny > 0 /\ ~all THEN <<B("emitted-unsatisfied")>> ELSE <<>>) \o
              (IF expectEmit /\ e.ny = 0 THEN <<B("missed-solution")>> ELSE <<>>) \o
              (IF e.ny > 1 \/ (e.ny > 0 /\ e.key \in sol) THEN <<B("emitted-twice")>> ELSE <<>>) \o
              (IF hit /\ e.res # seen[e.key] THEN <<B("hit-differs-from-stored")>> ELSE <<>>) \o
              (IF e.res # e.fresh THEN <<B("cached-differs-from-fresh")>> ELSE <<>>)
        IN
  /\ e.ev = "Eval"
  /\ bad' = bad \o fails
  /\ sol' = IF e.ny > 0 THEN sol \cup {e.key} ELSE sol
  /\ seen' = IF hit THEN seen ELSE seen @@ (e.key :> e.res)
  /\ nEval' = nEval + 1
  /\ UNCHANGED <<h, r>>

Next == i <= Len(Log) /\ i' = i + 1 /\ (New \/ Eval)
Spec == Init /\ [][Next]_vars

Final == i <= Len(Log) \/ (PrintT(<<"BAD", ToJson(bad)>>) /\ PrintT(<<"CONSUMED", i - 1, nEval>>))
=============================================================================
