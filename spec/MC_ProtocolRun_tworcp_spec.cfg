SPECIFICATION Spec
CONSTANTS
  Proto <- PTwoRcp
  FZ = {"F","G"}
  FilterByRecipient = TRUE
  Fault = "none"
  FaultAt = 0
INVARIANT TypeOK
INVARIANT NoSpuriousError
INVARIANT ExactlyOnceInOrder
INVARIANT BadRemoteEndsRun
PROPERTY Terminates
PROPERTY BadRemoteLeadsToError
CHECK_DEADLOCK FALSE
