------------------------------ MODULE TreeValue ------------------------------
(***************************************************************************)
(* The value of a derivation tree (language/tree.py value(),                *)
(* language/tree_value.py TreeValue).                                       *)
(*                                                                          *)
(* Part 1 - reference semantics (what property C09 promises): the value of  *)
(*   a tree is the in-order concatenation of its leaves, seen as bits, as   *)
(*   bytes (bits in groups of eight, text leaves UTF-8 encoded) or as text  *)
(*   (all-text trees: the text; otherwise the Latin-1 decoding of the       *)
(*   bytes).  It is defined on *aligned* leaf sequences only: every         *)
(*   non-empty text/bytes leaf starts at a multiple of 8 bits.              *)
(* Part 2 - the implementation-shaped value object (kind, payload,          *)
(*   trailing bits) with append / _reduce_trailing_bits / to_string /       *)
(*   to_bytes / to_bits / to_int transcribed case by case, folded over the  *)
(*   tree the way DerivationTree.value() does (subtree by subtree).         *)
(* Part 3 - a state machine of view requests on one tree: the terminals'    *)
(*   own value objects persist between requests (value() of a leaf returns  *)
(*   the symbol's object), aggregates are built anew for every request.     *)
(*                                                                          *)
(* Text is a sequence of code points, bytes a sequence of 0..255, bits a    *)
(* sequence of 0/1 (TLC strings are opaque).                                *)
(***************************************************************************)
EXTENDS Integers, Sequences, FiniteSets, TLC, SequencesExt, TreeValueRef

-----------------------------------------------------------------------------
-----------------------------------------------------------------------------
(* Part 2: the implementation-shaped value object *)
Err == [k |-> "ERR", v |-> <<>>, tb |-> <<>>]
Empty == [k |-> "none", v |-> <<>>, tb |-> <<>>]
IsEmpty(a) == a.k = "none" /\ a.tb = <<>>
OfLeaf(l) == IF l.k = "bit" THEN [k |-> "none", v |-> <<>>, tb |-> l.v] ELSE [k |-> l.k, v |-> l.v, tb |-> <<>>]
EncodeStr(cps, enc) == IF enc = "utf8" THEN [ok |-> TRUE, v |-> Utf8All(cps)]
                       ELSE IF \A i \in 1..Len(cps) : cps[i] < 256 THEN [ok |-> TRUE, v |-> cps] ELSE [ok |-> FALSE, v |-> <<>>]
(* _reduce_trailing_bits(enc): flush whole bytes of trailing bits into the payload (mutates the receiver) *)
Reduce(a, enc) ==
  IF a.k = "ERR" \/ a.tb = <<>> THEN a
  ELSE IF (Len(a.tb) % 8) # 0 THEN Err
  ELSE LET bs == BytesOfBits(a.tb) IN
       CASE a.k = "str"   -> LET e == EncodeStr(a.v, enc) IN IF e.ok THEN [k |-> "bytes", v |-> e.v \o bs, tb |-> <<>>] ELSE Err
         [] a.k = "bytes" -> [k |-> "bytes", v |-> a.v \o bs, tb |-> <<>>]
         [] a.k = "none"  -> [k |-> "bytes", v |-> bs, tb |-> <<>>]
(* append(other) *)
AppendV(a, b) ==
  IF a.k = "ERR" \/ b.k = "ERR" THEN Err
  ELSE IF IsEmpty(a) THEN b
  ELSE IF b.k = "none" THEN [a EXCEPT !.tb = a.tb \o b.tb]
  ELSE LET r == Reduce(a, "utf8") IN
       IF r.k = "ERR" THEN Err
       ELSE IF r.k = "str" /\ b.k = "str" THEN [k |-> "str", v |-> r.v \o b.v, tb |-> b.tb]
       ELSE LET lv == IF r.k = "str" THEN Utf8All(r.v) ELSE r.v
                rv == IF b.k = "str" THEN Utf8All(b.v) ELSE b.v
            IN [k |-> "bytes", v |-> lv \o rv, tb |-> b.tb]

(* a tree is a leaf [leaf |-> i] (index into the leaf sequence) or an inner node [ch |-> <<trees>>] *)
IsLeaf(t) == "leaf" \in DOMAIN t
RECURSIVE Value(_,_)
Value(t, objs) == IF IsLeaf(t) THEN objs[t.leaf]
                  ELSE FoldLeft(LAMBDA acc, c : AppendV(acc, Value(c, objs)), Empty, t.ch)

(* the views; each returns [res, obj]: the answer and the receiver after the call *)
Fail == [ok |-> FALSE, v |-> <<>>]
Ok(v) == [ok |-> TRUE, v |-> v]
CONSTANT FlushEnc     \* encoding to_string() flushes trailing bits with: "latin1" (pinned commit) or "utf8" (repaired)
ToStrOp(a) ==
  IF a.k = "ERR" THEN [res |-> Fail, obj |-> a]
  ELSE IF IsEmpty(a) THEN [res |-> Ok(<<>>), obj |-> a]
  ELSE LET r == Reduce(a, FlushEnc) IN
       IF r.k = "ERR" THEN [res |-> Fail, obj |-> a] ELSE [res |-> Ok(r.v), obj |-> r]
ToBytesOp(a) ==
  IF a.k = "ERR" THEN [res |-> Fail, obj |-> a]
  ELSE IF IsEmpty(a) THEN [res |-> Ok(<<>>), obj |-> a]
  ELSE LET r == Reduce(a, "utf8") IN
       IF r.k = "ERR" THEN [res |-> Fail, obj |-> a]
       ELSE [res |-> Ok(IF r.k = "str" THEN Utf8All(r.v) ELSE r.v), obj |-> r]
ToBitsOp(a) ==
  IF a.k = "ERR" THEN [res |-> Fail, obj |-> a]
  ELSE [res |-> Ok((CASE a.k = "none" -> <<>> [] a.k = "bytes" -> BitsOfBytes(a.v) [] a.k = "str" -> BitsOfBytes(Utf8All(a.v))) \o a.tb),
        obj |-> a]
\* to_int: a number for bit strings and digit strings; anything else is left open ("any")
AnyInt == [ok |-> TRUE, v |-> <<-1>>]
ToIntOp(a) ==
  IF a.k = "ERR" THEN [res |-> Fail, obj |-> a]
  ELSE IF a.k = "none" THEN [res |-> Ok(<<BitsToNat(a.tb)>>), obj |-> a]
  ELSE LET r == Reduce(a, "utf8") IN
       IF r.k = "ERR" THEN [res |-> Fail, obj |-> a]
       ELSE [res |-> IF r.k = "str" /\ IsDigits(r.v) /\ Len(r.v) <= 8 THEN Ok(<<DecimalOf(r.v)>>) ELSE AnyInt, obj |-> r]

Views == {"str", "bytes", "bits", "int"}
ViewOp(view, a) == CASE view = "str" -> ToStrOp(a) [] view = "bytes" -> ToBytesOp(a)
                     [] view = "bits" -> ToBitsOp(a) [] view = "int" -> ToIntOp(a)

(* what the reference demands of a view of the leaf sequence ls: a definite answer, or nothing ("open") *)
Open == [ok |-> TRUE, v |-> <<-2>>]
Expect(view, ls) ==
  CASE view = "bits"  -> IF Aligned(ls) THEN Ok(RefBits(ls)) ELSE Open
    [] view = "bytes" -> IF RefBytesDefined(ls) THEN Ok(RefBytes(ls)) ELSE Open
    [] view = "str"   -> IF RefStrDefined(ls) THEN Ok(RefStr(ls)) ELSE Open
    [] view = "int"   -> IF RefIntDefined(ls) THEN Ok(<<RefInt(ls)>>) ELSE Open
Agrees(res, exp) == exp = Open \/ res = exp \/ (res = AnyInt /\ exp = Open)

-----------------------------------------------------------------------------
(* shapes over a leaf sequence of length n *)
Leaf(i) == [leaf |-> i]
Run(i, j) == [ch |-> [x \in 1..(j - i + 1) |-> Leaf(i + x - 1)]]
Shapes(n) ==
  (IF n = 1 THEN {Leaf(1)} ELSE {}) \cup {Run(1, n)} \cup { [ch |-> <<Run(1, n)>>] }
  \cup { [ch |-> <<Run(1, i), Run(i + 1, n)>>] : i \in 1..(n - 1) }
  \cup { [ch |-> <<Run(1, i), [ch |-> <<Run(i + 1, n)>>]>>] : i \in 1..(n - 1) }
  \cup { [ch |-> <<Run(1, i), Run(i + 1, j), Run(j + 1, n)>>] : i \in 1..(n - 2), j \in 2..(n - 1) }
\* (the last set contains ill-formed members when j <= i; they are filtered by WellFormed)
RECURSIVE LeafIdx(_)
LeafIdx(t) == IF IsLeaf(t) THEN <<t.leaf>> ELSE FlatMap(t.ch, LeafIdx)
WellFormed(t, n) == LeafIdx(t) = [i \in 1..n |-> i]

(* The fold works subtree by subtree: it can only succeed when every subtree is aligned on its own, and it
   treats an empty text leaf like any other.  Trees that are aligned as a whole but not in this local, strict
   sense are where the two recorded findings live (a bit run crossing into a subtree that continues with
   text/bytes; an empty text leaf among unaligned bits); the generated family excludes them and the pinned
   witnesses replay them. *)
RECURSIVE LocallyAligned(_,_)
LocallyAligned(t, ls) ==
  IF IsLeaf(t) THEN TRUE
  ELSE /\ StrictAligned([x \in 1..Len(LeafIdx(t)) |-> ls[LeafIdx(t)[x]]])
       /\ \A i \in 1..Len(t.ch) : LocallyAligned(t.ch[i], ls)

-----------------------------------------------------------------------------
(* Part 3: requests on one tree *)
CONSTANTS Alphabet, MaxUnits, OnlyLocallyAligned
\* a case: a sequence of <= MaxUnits alphabet entries (each entry is itself a short leaf sequence)
UnitSeqs == UNION { [1..n -> Alphabet] : n \in 1..MaxUnits }
LeavesOf(us) == FlatMap(us, LAMBDA x : x)

VARIABLES leaves, shape, objs, last
vars == <<leaves, shape, objs, last>>

Init == /\ \E us \in UnitSeqs : leaves = LeavesOf(us)
        /\ shape \in {t \in Shapes(Len(leaves)) : WellFormed(t, Len(leaves))}
        /\ (OnlyLocallyAligned => LocallyAligned(shape, leaves))
        /\ objs = [i \in 1..Len(leaves) |-> OfLeaf(leaves[i])]
        /\ last = [view |-> "none", res |-> Open]

Request(view) ==
  LET a == Value(shape, objs)
      o == ViewOp(view, a)
  IN /\ last' = [view |-> view, res |-> o.res]
     /\ objs' = IF IsLeaf(shape) THEN [objs EXCEPT ![shape.leaf] = o.obj] ELSE objs   \* only a leaf's own object persists
     /\ UNCHANGED <<leaves, shape>>

Next == \E view \in Views : Request(view)
Spec == Init /\ [][Next]_vars

(* C09: whatever was asked before, every answer is the reference's *)
ViewsAgree == last.view # "none" => Agrees(last.res, Expect(last.view, leaves))
=============================================================================
