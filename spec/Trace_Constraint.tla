--------------------------- MODULE Trace_Constraint ---------------------------
(* Trace specification for constraint verdicts (code -> spec; C07, C02, C04).                     *)
(* ndjson events (IOEnv.TRACE_FILE):                                                              *)
(*  {"ev":"V","tid":t,"idx":i,"phis":[phi..],"tree":{..},"got":[..],"lazy":[..]}                  *)
(*    verdicts "T"/"F"/"X" the code reported for each constraint (eager / lazy; "-" = not asked)  *)
(*  {"ev":"E","tid":t,"idx":i,"phis":[phi..],"tree":{..}}  a tree emitted as a solution (C02)      *)
(*  {"ev":"P","tid":t,"idx":i,"phis":[phi..],"tree":{..},"yielded":b} API parse of a valid tree    *)
EXTENDS Naturals, Sequences, FiniteSets, TLC, Json, IOUtils, Constraint

Log == ndJsonDeserialize(IOEnv.TRACE_FILE)
VARIABLES i, bad, nv
vars == <<i, bad, nv>>
Init == i = 1 /\ bad = <<>> /\ nv = 0

Step == LET e == Log[i]
            Bad(c, k) == [tid |-> e.tid, idx |-> e.idx, clause |-> c, k |-> k]
            sats == [k \in 1..Len(e.phis) |-> Sat(e.phis[k], e.tree, EmptyScope)]
            fails ==
              IF e.ev = "V" THEN
                 FoldLeft(LAMBDA acc, k :
                            acc \o (IF ~Agrees(sats[k], e.got[k]) THEN <<Bad("verdict-" \o sats[k] \o "-got-" \o e.got[k], k)>> ELSE <<>>)
                                \o (IF e.lazy[k] # "-" /\ ~AgreesLazy(SatL(e.phis[k], e.tree, EmptyScope), e.lazy[k]) /\ ~Agrees(sats[k], e.lazy[k])
                                    THEN <<Bad("lazy-verdict-" \o SatLazy(e.phis[k], e.tree, EmptyScope) \o "-got-" \o e.lazy[k], k)>> ELSE <<>>)
                                \o (IF ~LazyEqualsEager(e.phis[k], e.tree, EmptyScope) THEN <<Bad("spec-lazy-differs-from-eager", k)>> ELSE <<>>),
                          <<>>, [k \in 1..Len(e.phis) |-> k])
              ELSE IF e.ev = "E" THEN
                 FoldLeft(LAMBDA acc, k : acc \o (IF sats[k] # "T" THEN <<Bad("emitted-violates-constraint", k)>> ELSE <<>>),
                          <<>>, [k \in 1..Len(e.phis) |-> k])
              ELSE \* "P": the API must yield the tree iff every constraint is satisfied
                 LET all == \A k \in 1..Len(e.phis) : sats[k] = "T" IN
                 IF e.yielded /\ ~all THEN <<Bad("api-yields-violating-tree", 0)>>
                 ELSE IF ~e.yielded /\ all THEN <<Bad("api-drops-satisfying-tree", 0)>> ELSE <<>>
        IN
  /\ i <= Len(Log) /\ i' = i + 1
  /\ bad' = bad \o fails
  /\ nv' = nv + Len(e.phis)
Spec == Init /\ [][Step]_vars
Final == i <= Len(Log) \/ (PrintT(<<"BAD", ToJson(bad)>>) /\ PrintT(<<"CONSUMED", i - 1, nv>>))
=============================================================================
