---------------------------- MODULE TreeValueRef ----------------------------
(* Part 1 of the value semantics (see TreeValue.tla): the reference meaning of a leaf sequence as bits, bytes *)
(* and text.  Constant-level operators, shared with the trace specifications that compare a tree's yield      *)
(* with the parsed input.                                                                                     *)
EXTENDS Integers, Sequences, FiniteSets, SequencesExt

(* leaves *)
TxtLeaf(cps)  == [k |-> "str",   v |-> cps]
BytLeaf(bs)   == [k |-> "bytes", v |-> bs]
BitLeaf(b)  == [k |-> "bit",   v |-> <<b>>]

Utf8(cp) == IF cp < 128 THEN <<cp>>
            ELSE IF cp < 2048 THEN <<192 + cp \div 64, 128 + (cp % 64)>>
            ELSE IF cp < 65536 THEN <<224 + cp \div 4096, 128 + ((cp \div 64) % 64), 128 + (cp % 64)>>
            ELSE <<240 + cp \div 262144, 128 + ((cp \div 4096) % 64), 128 + ((cp \div 64) % 64), 128 + (cp % 64)>>
FlatMap(seq, Op(_)) == FoldLeft(LAMBDA acc, x : acc \o Op(x), <<>>, seq)
Utf8All(cps) == FlatMap(cps, Utf8)
ByteBits(b) == [i \in 1..8 |-> (b \div (2^(8-i))) % 2]
BitsOfBytes(bs) == FlatMap(bs, ByteBits)
BitsToNat(bits) == FoldLeft(LAMBDA acc, x : acc * 2 + x, 0, bits)
RECURSIVE BytesOfBits(_)
BytesOfBits(bits) == IF bits = <<>> THEN <<>>
   ELSE << BitsToNat(SubSeq(bits, 1, 8)) >> \o BytesOfBits(SubSeq(bits, 9, Len(bits)))
IsDigits(cps) == cps # <<>> /\ \A i \in 1..Len(cps) : cps[i] \in 48..57
DecimalOf(cps) == FoldLeft(LAMBDA acc, x : acc * 10 + (x - 48), 0, cps)

-----------------------------------------------------------------------------
(* Part 1: reference semantics on the flat leaf sequence *)
LeafBits(l) == CASE l.k = "bit" -> l.v [] l.k = "bytes" -> BitsOfBytes(l.v) [] l.k = "str" -> BitsOfBytes(Utf8All(l.v))
RECURSIVE AlignedFrom(_,_)
AlignedFrom(ls, pos) == IF ls = <<>> THEN TRUE
   ELSE LET l == Head(ls) IN
        /\ (l.k # "bit" /\ l.v # <<>>) => (pos % 8) = 0
        /\ AlignedFrom(Tail(ls), pos + Len(LeafBits(l)))
Aligned(ls) == AlignedFrom(ls, 0)
\* stricter, used only to delimit the generated family (see LocallyAligned): *every* text/bytes leaf,
\* an empty one too, sits at a multiple of 8 bits
RECURSIVE StrictFrom(_,_)
StrictFrom(ls, pos) == IF ls = <<>> THEN TRUE
   ELSE LET l == Head(ls) IN (l.k # "bit" => (pos % 8) = 0) /\ StrictFrom(Tail(ls), pos + Len(LeafBits(l)))
StrictAligned(ls) == StrictFrom(ls, 0)
AllText(ls) == \A i \in 1..Len(ls) : ls[i].k = "str"
AllBits(ls) == ls # <<>> /\ \A i \in 1..Len(ls) : ls[i].k = "bit"
RefBits(ls) == FlatMap(ls, LeafBits)
RefBytesDefined(ls) == Aligned(ls) /\ (Len(RefBits(ls)) % 8) = 0
RefBytes(ls) == BytesOfBits(RefBits(ls))
RefStrDefined(ls) == Aligned(ls) /\ (AllText(ls) \/ RefBytesDefined(ls))
RefStr(ls) == IF AllText(ls) THEN FlatMap(ls, LAMBDA l : l.v) ELSE RefBytes(ls)   \* Latin-1: byte b <-> code point b
\* int(): pinned only where its meaning is not in doubt - a bit string is a binary number, digits are decimal
RefIntDefined(ls) == Aligned(ls) /\ (AllBits(ls) \/ (AllText(ls) /\ IsDigits(RefStr(ls)) /\ Len(RefStr(ls)) <= 8))
RefInt(ls) == IF AllBits(ls) THEN BitsToNat(RefBits(ls)) ELSE DecimalOf(RefStr(ls))

=============================================================================
