--------------------------- MODULE MC_ParserCache ---------------------------
EXTENDS ParserCache, IOUtils
\* two keys: an ambiguous input (3 trees) and an unambiguous one
mcKeys == {"amb", "one"}
mcForest == [k \in mcKeys |-> IF k = "amb" THEN 3 ELSE 1]
mcMaxHist == atoi(IOEnv.MAXHIST)
=============================================================================
