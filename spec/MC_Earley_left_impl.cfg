SPECIFICATION Spec
CONSTANTS
  Rules <- RLeft
  NT = {"S","L"}
  Start = "S"
  Input <- InLeft
  PrefixMode = FALSE
  AdmitByCore = FALSE
  CatchUp = "guarded"
  AnyOrder = FALSE
  MaxSize = 40
INVARIANT Bounded
PROPERTY Terminates
CHECK_DEADLOCK FALSE
