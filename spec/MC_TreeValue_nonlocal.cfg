SPECIFICATION Spec
CONSTANTS
  FlushEnc = "utf8"
  OnlyLocallyAligned = FALSE
  Alphabet <- mcAlphabet
  MaxUnits <- mcMaxUnits
INVARIANT ViewsAgree
CHECK_DEADLOCK FALSE
