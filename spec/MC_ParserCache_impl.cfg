SPECIFICATION Spec
CONSTANTS
  Keys <- mcKeys
  Forest <- mcForest
  Discipline = "impl"
  MaxHist <- mcMaxHist
  EmitHistories = FALSE
INVARIANT HistoryIndependent
INVARIANT StoredComplete
CHECK_DEADLOCK FALSE
