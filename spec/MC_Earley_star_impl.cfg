SPECIFICATION Spec
CONSTANTS
  Rules <- RStar
  NT = {"S","P","A"}
  Start = "S"
  Input <- InStar
  PrefixMode = FALSE
  AdmitByCore = FALSE
  CatchUp = "guarded"
  AnyOrder = FALSE
  MaxSize = 40
INVARIANT Bounded
PROPERTY Terminates
CHECK_DEADLOCK FALSE
