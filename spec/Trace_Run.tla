-------------------------------- MODULE Trace_Run --------------------------------
(* Trace specification for recorded protocol runs (code -> spec, C20).                                            *)
(* ndjson events (IOEnv.TRACE_FILE), one run = one tid:                                                           *)
(*  {"ev":"proto","tid":t,"inter":[[[snd,rcp,type]..]..],"lang":{type:[[text]..]},"ext":[parties]}               *)
(*      the complete interactions of the protocol (from Protocol.tla), the texts each message type admits         *)
(*      (grammar + constraints) and the external parties                                                          *)
(*  {"ev":"send","tid":t,"snd":..,"rcp":..,"text":[..]}       the fuzzer-side party transmitted a message          *)
(*  {"ev":"deliver","tid":t,"snd":..,"rcp":..,"unit":[..]}     an external party's unit reached the receive buffer  *)
(*  {"ev":"end","tid":t,"kind":"ok"|"error","hist":[{snd,rcp,type,text}..],"peers_valid":b,"all_delivered":b}      *)
(*      the interaction recorded in the resulting tree (protocol_msgs), or the history at the point of failure     *)
EXTENDS Naturals, Sequences, FiniteSets, TLC, Json, IOUtils, SequencesExt

Log == ndJsonDeserialize(IOEnv.TRACE_FILE)
VARIABLES i, proto, sends, delivered, bad, nruns
vars == <<i, proto, sends, delivered, bad, nruns>>
Init == i = 1 /\ proto = <<>> /\ sends = <<>> /\ delivered = <<>> /\ bad = <<>> /\ nruns = 0

Flat(seqs) == FoldLeft(LAMBDA acc, x : acc \o x, <<>>, seqs)
Key(m) == <<m.snd, m.rcp, m.type>>

EndFails(e) ==
  LET p == proto
      keys == [k \in 1..Len(e.hist) |-> Key(e.hist[k])]
      ext == ToSet(p.ext)
      mine == SelectSeq(e.hist, LAMBDA m : m.snd \notin ext)
      conns == { <<e.hist[k].snd, e.hist[k].rcp>> : k \in {j \in 1..Len(e.hist) : e.hist[j].snd \in ext} }
               \cup { <<delivered[k].snd, delivered[k].rcp>> : k \in 1..Len(delivered) }
      recvText(c) == Flat([k \in 1..Len(SelectSeq(e.hist, LAMBDA m : m.snd = c[1] /\ m.rcp = c[2])) |->
                             SelectSeq(e.hist, LAMBDA m : m.snd = c[1] /\ m.rcp = c[2])[k].text])
      wire(c) == Flat([k \in 1..Len(SelectSeq(delivered, LAMBDA d : d.snd = c[1] /\ d.rcp = c[2])) |->
                             SelectSeq(delivered, LAMBDA d : d.snd = c[1] /\ d.rcp = c[2])[k].unit])
      B(c) == [tid |-> e.tid, clause |-> c]
  IN
  (IF ~\E w \in ToSet(p.inter) : IsPrefix(keys, [k \in 1..Len(w) |-> <<w[k][1], w[k][2], w[k][3]>>])
      THEN <<B("history-is-not-a-prefix-of-an-interaction")>> ELSE <<>>) \o
  (IF e.kind = "ok" /\ ~\E w \in ToSet(p.inter) : keys = [k \in 1..Len(w) |-> <<w[k][1], w[k][2], w[k][3]>>]
      THEN <<B("run-ended-ok-on-an-incomplete-interaction")>> ELSE <<>>) \o
  (IF \E k \in 1..Len(e.hist) : e.hist[k].text \notin ToSet(p.lang[e.hist[k].type])
      THEN <<B("message-text-outside-the-constrained-message-language")>> ELSE <<>>) \o
  (IF ~IsPrefix([k \in 1..Len(mine) |-> [snd |-> mine[k].snd, rcp |-> mine[k].rcp, text |-> mine[k].text]], sends)
      \/ (e.kind = "ok" /\ Len(mine) # Len(sends))
      THEN <<B("sent-messages-differ-from-the-recorded-ones")>> ELSE <<>>) \o
  (IF \E c \in conns : ~IsPrefix(recvText(c), wire(c)) \/ (e.kind = "ok" /\ e.peers_valid /\ recvText(c) # wire(c))
      THEN <<B("received-data-not-attributed-exactly-once-in-order")>> ELSE <<>>) \o
  (IF e.kind = "error" /\ e.peers_valid /\ e.all_delivered THEN <<B("run-failed-although-every-peer-behaved-validly")>> ELSE <<>>) \o
  (IF e.kind = "ok" /\ ~e.peers_valid THEN <<B("invalid-remote-behaviour-accepted")>> ELSE <<>>)

Step == LET e == Log[i] IN
  /\ i <= Len(Log) /\ i' = i + 1
  /\ CASE e.ev = "proto"   -> proto' = e /\ sends' = <<>> /\ delivered' = <<>> /\ UNCHANGED <<bad, nruns>>
       [] e.ev = "send"    -> sends' = Append(sends, [snd |-> e.snd, rcp |-> e.rcp, text |-> e.text]) /\ UNCHANGED <<proto, delivered, bad, nruns>>
       [] e.ev = "deliver" -> delivered' = Append(delivered, [snd |-> e.snd, rcp |-> e.rcp, unit |-> e.unit]) /\ UNCHANGED <<proto, sends, bad, nruns>>
       [] e.ev = "end"     -> bad' = bad \o EndFails(e) /\ nruns' = nruns + 1 /\ UNCHANGED <<proto, sends, delivered>>
Spec == Init /\ [][Step]_vars
Final == i <= Len(Log) \/ (PrintT(<<"BAD", ToJson(bad)>>) /\ PrintT(<<"CONSUMED", i - 1, nruns>>))
=============================================================================
