INIT JInit
NEXT JNext
CONSTANTS
  FlushEnc = "utf8"
  OnlyLocallyAligned = TRUE
  Alphabet <- mcAlphabet
  MaxUnits <- mcMaxUnits
CHECK_DEADLOCK FALSE
