------------------------------ MODULE Constraint ------------------------------
(***************************************************************************)
(* Meaning of the constraint sub-language (constraints package,             *)
(* language/search.py), calibrated against the documentation and the code:  *)
(*   selectors   <A> (every node with that symbol, or the quantifier's      *)
(*               binding), .<B> direct children, ..<B> descendants,         *)
(*               [i] item, [i:j] slice (an anonymous node over the selected *)
(*               children); one selector bracket per step                   *)
(*   atoms       Python expressions over one selector; each may raise       *)
(*   |sel| >= k  count of matches                                           *)
(*   groups      a parenthesised and/or of atoms is ONE Python expression:  *)
(*               combinations = product of the matches of all its symbols,  *)
(*               evaluated left to right with short-circuit                 *)
(*   and / or    at formula level each operand is a constraint of its own   *)
(*   forall / exists <x> in sel : body                                      *)
(* Sat(phi, tree, scope) is "T" iff the expression is truthy for EVERY      *)
(* combination of matches (no match = nothing to violate); a combination    *)
(* whose evaluation raises makes the constraint fail ("F"); "SELX" = the    *)
(* selector itself raises (index out of range): anything but "satisfied".   *)
(* Lazy evaluation must give the same verdict as eager evaluation.          *)
(***************************************************************************)
EXTENDS Integers, Sequences, FiniteSets, TLC, SequencesExt

\* ---------- trees: [sym, term, val, ch]
RECURSIVE Text(_)
Text(t) == IF t.term THEN t.val ELSE FoldLeft(LAMBDA acc, c : acc \o Text(c), <<>>, t.ch)

RECURSIVE AllNodes(_)     \* sequence of all nodes, pre-order, root included
AllNodes(t) == <<t>> \o FoldLeft(LAMBDA acc, c : acc \o AllNodes(c), <<>>, t.ch)
Desc(t) == FoldLeft(LAMBDA acc, c : acc \o AllNodes(c), <<>>, t.ch)

Filter(seq, sym) == SelectSeq(seq, LAMBDA n : ~n.term /\ n.sym = sym)
FlatMap(seq, Op(_)) == FoldLeft(LAMBDA acc, x : acc \o Op(x), <<>>, seq)

Norm(i, n) == IF i < 0 THEN n + i ELSE i          \* python index normalisation
Clamp(i, n) == IF i < 0 THEN (IF n + i < 0 THEN 0 ELSE n + i) ELSE (IF i > n THEN n ELSE i)
SliceNode(kids) == [sym |-> "<slice>", term |-> FALSE, val |-> <<>>, ch |-> kids]

\* selector = sequence of steps [op, sym, i, j, hasj]; result: [ok |-> BOOL, nodes |-> Seq]
RECURSIVE Sel(_,_,_,_,_)
Sel(steps, k, cur, root, scope) ==
  IF k > Len(steps) THEN [ok |-> TRUE, nodes |-> cur]
  ELSE LET st == steps[k] IN
    CASE st.op = "rule" ->
            Sel(steps, k+1, IF st.sym \in DOMAIN scope THEN <<scope[st.sym]>> ELSE Filter(AllNodes(root), st.sym), root, scope)
      [] st.op = "child" -> Sel(steps, k+1, FlatMap(cur, LAMBDA n : Filter(n.ch, st.sym)), root, scope)
      [] st.op = "desc"  -> Sel(steps, k+1, FlatMap(cur, LAMBDA n : Filter(Desc(n), st.sym)), root, scope)
      [] st.op = "item"  ->
            IF \E x \in 1..Len(cur) : LET n == Len(cur[x].ch) p == Norm(st.i, n) IN p < 0 \/ p >= n
            THEN [ok |-> FALSE, nodes |-> <<>>]
            ELSE Sel(steps, k+1, [x \in 1..Len(cur) |-> cur[x].ch[Norm(st.i, Len(cur[x].ch)) + 1]], root, scope)
      [] st.op = "slice" ->
            Sel(steps, k+1, [x \in 1..Len(cur) |->
                 LET n == Len(cur[x].ch) a == Clamp(st.i, n) b == IF st.hasj THEN Clamp(st.j, n) ELSE n
                 IN SliceNode(IF b > a THEN SubSeq(cur[x].ch, a+1, b) ELSE <<>>)], root, scope)

\* int(<tree>) is Python's int() of the text: decimal digits, optionally after one sign character ('+7' is 7; the
\* grammars of the corpus contain '+' but neither '-', blanks nor '_')
Unsigned(s) == IF Len(s) > 0 /\ s[1] = 43 THEN Tail(s) ELSE s
IsDigitStr(s) == LET u == Unsigned(s) IN Len(u) > 0 /\ Len(u) <= 9 /\ \A i \in 1..Len(u) : u[i] \in 48..57
ToInt(s) == FoldLeft(LAMBDA acc, c : acc * 10 + (c - 48), 0, Unsigned(s))

\* atom verdict on one node: "T", "F" or "X" (raises)
AtomOn(a, n) ==
  CASE a.kind = "streq" -> IF Text(n) = a.lit THEN "T" ELSE "F"
    [] a.kind = "lengt" -> IF Len(Text(n)) > a.k THEN "T" ELSE "F"
    [] a.kind = "strne" -> IF Text(n) # a.lit THEN "T" ELSE "F"
    \* int(<tree>): the decimal number the text spells; a selection without any leaf counts as 0 (calibrated:
    \* DerivationTree.__int__ of an empty value); any other text raises
    [] a.kind = "intgt" -> IF Text(n) = <<>> THEN (IF 0 > a.k THEN "T" ELSE "F")
                           ELSE IF ~IsDigitStr(Text(n)) THEN "X" ELSE IF ToInt(Text(n)) > a.k THEN "T" ELSE "F"
    [] a.kind = "intle" -> IF Text(n) = <<>> THEN (IF 0 <= a.k THEN "T" ELSE "F")
                           ELSE IF ~IsDigitStr(Text(n)) THEN "X" ELSE IF ToInt(Text(n)) <= a.k THEN "T" ELSE "F"
    \* comparisons between float-valued sides: int(x) / 2 < k / 2 is, exactly, int(x) < k (halving is exact)
    [] a.kind = "halflt" -> IF Text(n) = <<>> THEN (IF 0 < a.k THEN "T" ELSE "F")
                            ELSE IF ~IsDigitStr(Text(n)) THEN "X" ELSE IF ToInt(Text(n)) < a.k THEN "T" ELSE "F"
    [] a.kind = "halfgt" -> IF Text(n) = <<>> THEN (IF 0 > a.k THEN "T" ELSE "F")
                            ELSE IF ~IsDigitStr(Text(n)) THEN "X" ELSE IF ToInt(Text(n)) > a.k THEN "T" ELSE "F"
    [] a.kind = "starts" -> IF Len(Text(n)) >= Len(a.lit) /\ SubSeq(Text(n), 1, Len(a.lit)) = a.lit THEN "T" ELSE "F"

IntOf(n) == IF Text(n) = <<>> THEN 0 ELSE ToInt(Text(n))
IntOK(n) == Text(n) = <<>> \/ IsDigitStr(Text(n))
Cmp2(kind, a, b) ==
  CASE kind = "intle" -> IF ~IntOK(a) \/ ~IntOK(b) THEN "X" ELSE IF IntOf(a) <= IntOf(b) THEN "T" ELSE "F"
    [] kind = "intlt" -> IF ~IntOK(a) \/ ~IntOK(b) THEN "X" ELSE IF IntOf(a) < IntOf(b) THEN "T" ELSE "F"
    [] kind = "halflt" -> IF ~IntOK(a) \/ ~IntOK(b) THEN "X" ELSE IF IntOf(a) < IntOf(b) THEN "T" ELSE "F"
    [] kind = "streq" -> IF Text(a) = Text(b) THEN "T" ELSE "F"
    [] kind = "strne" -> IF Text(a) # Text(b) THEN "T" ELSE "F"

\* expression-level group: one Python expression `a1 op a2 (op a3)`; combinations = product of the matches
\* of every atom's selector; per combination evaluate left to right with short-circuit; a raise fails the combination
RECURSIVE Product(_)
Product(lists) == IF lists = <<>> THEN {<<>>}
                  ELSE { <<h>> \o t : h \in {lists[1][x] : x \in 1..Len(lists[1])}, t \in Product(Tail(lists)) }
RECURSIVE EvalAnd(_,_,_)
EvalAnd(atoms, combo, k) == IF k > Len(atoms) THEN "T"
   ELSE LET v == AtomOn(atoms[k], combo[k]) IN IF v = "T" THEN EvalAnd(atoms, combo, k+1) ELSE v
RECURSIVE EvalOr(_,_,_)
EvalOr(atoms, combo, k) == IF k > Len(atoms) THEN "F"
   ELSE LET v == AtomOn(atoms[k], combo[k]) IN IF v = "F" THEN EvalOr(atoms, combo, k+1) ELSE v
SatGroup(phi, root, scope) ==
  LET rs == [x \in 1..Len(phi.xs) |-> Sel(phi.xs[x].sel, 1, <<>>, root, scope)] IN
  IF \E x \in 1..Len(rs) : ~rs[x].ok THEN "SELX"
  ELSE LET combos == Product([x \in 1..Len(rs) |-> rs[x].nodes]) IN
       IF \A c \in combos : (IF phi.op = "and" THEN EvalAnd(phi.xs, c, 1) ELSE EvalOr(phi.xs, c, 1)) = "T" THEN "T" ELSE "F"

\* formula: [f |-> "atom", kind, lit, k, sel] | [f |-> "and"/"or", xs] | [f |-> "forall"/"exists", var, sel, body] | [f |-> "count", sel, k]
\* result in {"T","F","SELX"}  (SELX: a selector raised -> anything but "satisfied" is acceptable)
RECURSIVE SatM(_,_,_,_)
\* first non-"T" (resp. non-"F") verdict in evaluation order, for lazy evaluation
RECURSIVE FirstNot(_,_,_)
FirstNot(vs, k, skip) == IF k > Len(vs) THEN skip ELSE IF vs[k] # skip THEN vs[k] ELSE FirstNot(vs, k + 1, skip)
\* lazy: operands are evaluated left to right and evaluation stops at the first deciding one, so a selector that
\* raises further right is never reached; eager: every operand is evaluated, a raising selector anywhere raises
SatM(phi, root, scope, lazy) ==
  CASE phi.f = "atom" ->
         LET r == Sel(phi.sel, 1, <<>>, root, scope) IN
         IF ~r.ok THEN "SELX"
         ELSE IF \A x \in 1..Len(r.nodes) : AtomOn(phi, r.nodes[x]) = "T" THEN "T" ELSE "F"
    [] phi.f = "group" -> SatGroup(phi, root, scope)
    [] phi.f = "count" ->
         LET r == Sel(phi.sel, 1, <<>>, root, scope) IN
         IF ~r.ok THEN "SELX" ELSE IF Len(r.nodes) >= phi.k THEN "T" ELSE "F"
    \* a comparison of two symbols, int(sel) <= int(sel2) / str(sel) == str(sel2): every PAIR of matches must satisfy it
    [] phi.f = "cmp2" ->
         LET r1 == Sel(phi.sel, 1, <<>>, root, scope)  r2 == Sel(phi.sel2, 1, <<>>, root, scope) IN
         IF ~r1.ok \/ ~r2.ok THEN "SELX"
         ELSE IF \A x \in 1..Len(r1.nodes), y \in 1..Len(r2.nodes) : Cmp2(phi.kind, r1.nodes[x], r2.nodes[y]) = "T" THEN "T" ELSE "F"
    [] phi.f \in {"and", "or"} ->
         LET vs == [x \in 1..Len(phi.xs) |-> SatM(phi.xs[x], root, scope, lazy)] IN
         IF lazy THEN FirstNot(vs, 1, IF phi.f = "and" THEN "T" ELSE "F")
         ELSE IF \E x \in 1..Len(vs) : vs[x] = "SELX" THEN "SELX"
         ELSE IF phi.f = "and" THEN (IF \A x \in 1..Len(vs) : vs[x] = "T" THEN "T" ELSE "F")
              ELSE (IF \E x \in 1..Len(vs) : vs[x] = "T" THEN "T" ELSE "F")
    [] phi.f \in {"forall", "exists"} ->
         LET r == Sel(phi.sel, 1, <<>>, root, scope) IN
         IF ~r.ok THEN "SELX"
         ELSE LET res == [x \in 1..Len(r.nodes) |-> SatM(phi.body, root, (phi.var :> r.nodes[x]) @@ scope, lazy)] IN
              IF lazy THEN FirstNot(res, 1, IF phi.f = "forall" THEN "T" ELSE "F")
              ELSE IF \E x \in 1..Len(res) : res[x] = "SELX" THEN "SELX"
              ELSE IF phi.f = "forall" THEN (IF \A x \in 1..Len(res) : res[x] = "T" THEN "T" ELSE "F")
                   ELSE (IF \E x \in 1..Len(res) : res[x] = "T" THEN "T" ELSE "F")
\* Lazy evaluation, order-agnostic for quantifiers: the set of verdicts a lazy evaluator may report.  and / or are
\* evaluated left to right and stop at the first deciding operand; a quantifier may visit its elements in ANY order and
\* stops at the first deciding one - the property fixes no order, and the implementation's differs from document
\* order - so it may report the deciding verdict if some element can yield it, a raise if some element can raise,
\* and the other verdict only if every element can yield that.
RECURSIVE SeqOutcomes(_,_,_)
SeqOutcomes(sets, k, pass) == IF k > Len(sets) THEN {pass}
                              ELSE (sets[k] \ {pass}) \cup (IF pass \in sets[k] THEN SeqOutcomes(sets, k + 1, pass) ELSE {})
RECURSIVE SatL(_,_,_)
SatL(phi, root, scope) ==
  CASE phi.f \in {"and", "or"} ->
         SeqOutcomes([x \in 1..Len(phi.xs) |-> SatL(phi.xs[x], root, scope)], 1, IF phi.f = "and" THEN "T" ELSE "F")
    [] phi.f \in {"forall", "exists"} ->
         LET r == Sel(phi.sel, 1, <<>>, root, scope) IN
         IF ~r.ok THEN {"SELX"}
         ELSE LET sets == [x \in 1..Len(r.nodes) |-> SatL(phi.body, root, (phi.var :> r.nodes[x]) @@ scope)]
                  stop == IF phi.f = "forall" THEN "F" ELSE "T"
                  pass == IF phi.f = "forall" THEN "T" ELSE "F"
              IN (IF \E x \in 1..Len(sets) : stop \in sets[x] THEN {stop} ELSE {})
                 \cup (IF \E x \in 1..Len(sets) : "SELX" \in sets[x] THEN {"SELX"} ELSE {})
                 \cup (IF \A x \in 1..Len(sets) : pass \in sets[x] THEN {pass} ELSE {})
    [] OTHER -> {SatM(phi, root, scope, FALSE)}
AgreesLazy(set, got) == \/ got = "T" /\ "T" \in set
                        \/ got = "F" /\ ("F" \in set \/ "SELX" \in set)
                        \/ got = "X" /\ "SELX" \in set
Sat(phi, root, scope) == SatM(phi, root, scope, FALSE)
SatLazy(phi, root, scope) == SatM(phi, root, scope, TRUE)
\* whenever no selector raises the two coincide (checked on every judged case by Trace_Constraint)
LazyEqualsEager(phi, root, scope) == Sat(phi, root, scope) = "SELX" \/ SatLazy(phi, root, scope) = Sat(phi, root, scope)

EmptyScope == [x \in {} |-> 0]
(* does a verdict reported by the code ("T" true, "F" false, "X" raised) agree with the specification? *)
Agrees(s, got) == CASE s = "T" -> got = "T"
                    [] s = "F" -> got = "F"
                    [] s = "SELX" -> got \in {"F", "X"}
=============================================================================
