--------------------------- MODULE TreeValueJudge ---------------------------
(* code -> spec: reference answers (Expect) for leaf sequences recorded from real trees (IOEnv.IN, ndjson) *)
EXTENDS MC_TreeValue
Recorded == ndJsonDeserialize(IOEnv.IN)
Answers == [i \in 1..Len(Recorded) |->
              [aligned |-> Aligned(Recorded[i].leaves), local |-> LocallyAligned(Recorded[i].shape, Recorded[i].leaves), expect |-> [v \in Views |-> Expect(v, Recorded[i].leaves)]]]
ASSUME ndJsonSerialize(IOEnv.OUT, Answers) /\ PrintT(<<"judged", Len(Recorded)>>)
JInit == leaves = <<>> /\ shape = Leaf(1) /\ objs = <<>> /\ last = [view |-> "none", res |-> Open]
JNext == UNCHANGED vars
=============================================================================
