--------------------------------- MODULE Search ---------------------------------
(***************************************************************************)
(* The tree operators of the evolutionary search (evolution/crossover.py,   *)
(* mutation.py, population.py fix_individual - all built on                 *)
(* DerivationTree.replace): a population of derivation trees is edited by   *)
(* replacing a subtree with another derivation of the SAME symbol           *)
(* (mutation: a fresh one; crossover: one taken from another individual;    *)
(* repair: a parse of the wanted text under the target symbol).             *)
(*                                                                          *)
(* Property C01 at design level: Inv_Valid - every individual is a          *)
(* derivation of the grammar from the start symbol - is preserved by the    *)
(* operators as long as the replacement has the symbol of the replaced      *)
(* node; SameSymbolOnly = FALSE (sanity configuration) violates it.         *)
(* The recorded histories are replayed into the real code (spec -> code).   *)
(***************************************************************************)
EXTENDS Naturals, Sequences, FiniteSets, TLC, Json, FanIR

CONSTANTS G,              \* grammar IR (FanIR)
          Depth,          \* derivation trees up to this depth form the pool of replacements / initial individuals
          MaxOps, SameSymbolOnly, Record

Leaf(kind, v) == [sym |-> "", term |-> TRUE, kind |-> kind, val |-> v, ch |-> <<>>, helper |-> FALSE]
Inner(s, kids) == [sym |-> s, term |-> FALSE, kind |-> "", val |-> <<>>, ch |-> kids, helper |-> FALSE]

(* all child sequences a grammar node can expand to, with subtrees of depth <= d *)
RECURSIVE Exp(_,_)
Concat(A, B) == { a \o b : a \in A, b \in B }
RECURSIVE Power(_,_)
Power(S, n) == IF n = 0 THEN {<<>>} ELSE Concat(S, Power(S, n - 1))
Exp(n, d) ==
  CASE n.k = "alt" -> UNION { Exp(n.xs[j], d) : j \in 1..Len(n.xs) }
    [] n.k = "cat" -> LET RECURSIVE Go(_) Go(j) == IF j > Len(n.xs) THEN {<<>>} ELSE Concat(Exp(n.xs[j], d), Go(j + 1)) IN Go(1)
    [] n.k = "rep" -> UNION { Power(Exp(n.xs[1], d), c) : c \in n.lo..(IF n.hi > 2 THEN 2 ELSE n.hi) }
    [] n.k = "nt"  -> IF d = 0 THEN {} ELSE { <<Inner(n.s, kids)>> : kids \in Exp(G.rules[n.s], d - 1) }
    [] n.k = "lit" -> { <<Leaf(n.kind, n.v)>> }
TreesOf(s, d) == IF d = 0 THEN {} ELSE { Inner(s, kids) : kids \in Exp(G.rules[s], d - 1) }
Pool == UNION { TreesOf(s, Depth) : s \in DOMAIN G.rules }

(* positions of a tree *)
RECURSIVE Paths(_)
Paths(t) == {<<>>} \cup UNION { { <<i>> \o p : p \in Paths(t.ch[i]) } : i \in 1..Len(t.ch) }
RECURSIVE SubAt(_,_)
SubAt(t, p) == IF p = <<>> THEN t ELSE SubAt(t.ch[Head(p)], Tail(p))
RECURSIVE SubstAt(_,_,_)
SubstAt(t, p, sub) == IF p = <<>> THEN sub ELSE [t EXCEPT !.ch[Head(p)] = SubstAt(t.ch[Head(p)], Tail(p), sub)]
InnerPaths(t) == { p \in Paths(t) : ~SubAt(t, p).term }

VARIABLES pop, hist
vars == <<pop, hist>>
Log(op, i, p, sub, j, q, post) == IF Record THEN hist' = Append(hist, [op |-> op, i |-> i, p |-> p, sub |-> sub, j |-> j, q |-> q, post |-> post])
                                  ELSE hist' = <<[op |-> op]>> \o SubSeq(hist, 1, 0)
Steps == IF Record THEN Len(hist) ELSE 0

Init == /\ pop \in { <<a, b>> : a \in TreesOf(G.start, Depth), b \in TreesOf(G.start, Depth) }
        /\ hist = IF Record THEN <<[op |-> "init", i |-> 0, p |-> <<>>, sub |-> Leaf("", <<>>), j |-> 0, q |-> <<>>, post |-> pop]>> ELSE <<>>

(* mutation / repair: a subtree is replaced by a derivation from the pool *)
Replace(i, p, sub) ==
  /\ p \in InnerPaths(pop[i])
  /\ SameSymbolOnly => SubAt(pop[i], p).sym = sub.sym
  /\ LET t2 == SubstAt(pop[i], p, sub) IN
     /\ pop' = [pop EXCEPT ![i] = t2]
     /\ Log("replace", i, p, sub, 0, <<>>, <<[pop EXCEPT ![i] = t2][1], [pop EXCEPT ![i] = t2][2]>>)
(* crossover: subtrees of equal symbol are exchanged between the two individuals *)
Crossover(p, q) ==
  /\ p \in InnerPaths(pop[1]) /\ q \in InnerPaths(pop[2])
  /\ SameSymbolOnly => SubAt(pop[1], p).sym = SubAt(pop[2], q).sym
  /\ LET a == SubstAt(pop[1], p, SubAt(pop[2], q))
         b == SubstAt(pop[2], q, SubAt(pop[1], p))
     IN /\ pop' = <<a, b>>
        /\ Log("crossover", 1, p, SubAt(pop[2], q), 2, q, <<a, b>>)

Next == /\ (Record => Len(hist) < MaxOps)
        /\ \/ \E i \in 1..2, sub \in Pool : \E p \in InnerPaths(pop[i]) : Replace(i, p, sub)
           \/ \E p \in InnerPaths(pop[1]), q \in InnerPaths(pop[2]) : Crossover(p, q)
Spec == Init /\ [][Next]_vars

Inv_Valid == \A i \in 1..2 : pop[i].sym = G.start /\ Valid(G, pop[i])
\* size bound keeps the exhaustive configuration finite (crossover can grow recursive structures)
RECURSIVE Size(_)
Size(t) == 1 + FoldLeft(LAMBDA acc, c : acc + Size(c), 0, t.ch)
Small == \A i \in 1..2 : Size(pop[i]) <= 14
Emit == ~Record \/ Len(hist) < MaxOps \/ PrintT(<<"HIST", ToJson(hist)>>)
=============================================================================
