---------------------------- MODULE MC_ProtocolRun ----------------------------
EXTENDS ProtocolRun
\* one external sender addressing two fuzzer-side recipients (FTP-style control / data connections)
PTwoRcp == << [snd |-> "F", rcp |-> "X", ty |-> "go",  units |-> <<"g">>],
              [snd |-> "X", rcp |-> "F", ty |-> "a",   units |-> <<"a","1","a">>],
              [snd |-> "X", rcp |-> "G", ty |-> "b",   units |-> <<"b","b">>],
              [snd |-> "G", rcp |-> "X", ty |-> "end", units |-> <<"e">>] >>
\* two external senders
PTwoSnd == << [snd |-> "F", rcp |-> "X", ty |-> "go",  units |-> <<"g">>],
              [snd |-> "X", rcp |-> "F", ty |-> "a",   units |-> <<"a","1","a">>],
              [snd |-> "Y", rcp |-> "F", ty |-> "b",   units |-> <<"b","b">>],
              [snd |-> "F", rcp |-> "X", ty |-> "end", units |-> <<"e">>] >>
=============================================================================
