------------------------------ MODULE Generators ------------------------------
(***************************************************************************)
(* Generator-defined fields (`<f> ::= ... := g(<a>, <b>)`).  A field's text  *)
(* is what the generator returned for the argument values recorded with the *)
(* node (its `sources`); search operators may change an argument (the field *)
(* is then re-generated) but never the generated text itself.               *)
(*                                                                          *)
(* Fields of the model spec (the generator library exists in TLA+ and, with *)
(* the same names, in the .fan text the harness renders):                   *)
(*   chk := g_sum(<p>, <q>)   = (p + q) % 10        two arguments           *)
(*   len := g_len(<body>)     = length of body      one argument; <len> is  *)
(*                             one digit, so the generator is partial         *)
(*   tag := g_tag()           in {"aa","b","ccc"}   no argument             *)
(* RegenRule = "any"   : re-generate when any recorded argument changed     *)
(*             "last"  : only when the last one changed (a plausible slip;  *)
(*                       sanity config, must violate FieldIsGenerated)      *)
(***************************************************************************)
EXTENDS Naturals, Sequences, TLC, Json

CONSTANTS Digits, BodyLens, RegenRule, MaxOps, Record,
          FitMax            \* <len> ::= <digit>: the generator is partial for its rule - a value above FitMax does not fit it
VARIABLES p, q, body,         \* recorded arguments
          chk, len,           \* generated texts (as numbers)
          hist
vars == <<p, q, body, chk, len, hist>>

GSum(a, b) == (a + b) % 10
GLen(b) == b

Init == /\ p \in Digits /\ q \in Digits /\ body \in { b \in BodyLens : GLen(b) <= FitMax }
        /\ chk = GSum(p, q) /\ len = GLen(body)
        /\ hist = IF Record THEN <<[op |-> "init", arg |-> "", v |-> 0, p |-> p, q |-> q, body |-> body, chk |-> GSum(p, q), len |-> GLen(body)]>> ELSE <<>>

Log(op, arg, v, p2, q2, b2, c2, l2) ==
  IF Record THEN Len(hist) <= MaxOps /\ hist' = Append(hist, [op |-> op, arg |-> arg, v |-> v, p |-> p2, q |-> q2, body |-> b2, chk |-> c2, len |-> l2])
  ELSE UNCHANGED hist

(* an operator replaces a recorded argument of <chk> *)
SetP(v) == /\ v # p /\ p' = v
           /\ chk' = IF RegenRule = "any" THEN GSum(v, q) ELSE chk        \* "last": p is not the last argument
           /\ UNCHANGED <<q, body, len>>
           /\ Log("set_arg", "p", v, v, q, body, chk', len)
SetQ(v) == /\ v # q /\ q' = v
           /\ chk' = GSum(p, v)
           /\ UNCHANGED <<p, body, len>>
           /\ Log("set_arg", "q", v, p, v, body, chk', len)
SetBody(v) == /\ v # body /\ GLen(v) <= FitMax /\ body' = v /\ len' = GLen(v)
              /\ UNCHANGED <<p, q, chk>>
              /\ Log("set_arg", "body", v, p, q, v, chk, len')
(* the value the generator computes for the new argument does not fit the field's rule: the replacement is refused (the
   operator raises), argument and text stay as they were - never a field whose text belongs to other arguments *)
SetBodyRefused(v) == /\ v # body /\ GLen(v) > FitMax
                     /\ UNCHANGED <<p, q, body, chk, len>>
                     /\ Log("set_arg_refused", "body", v, p, q, body, chk, len)
(* an operator tries to overwrite generated text below the field (chk, len, or the argument-less tag): refused,
   nothing changes - in particular the text of <tag> stays what g_tag() returned *)
EditGenerated(f, v) == /\ UNCHANGED <<p, q, body, chk, len>>
                       /\ Log("edit_generated", f, v, p, q, body, chk, len)

Next == \/ \E v \in Digits : SetP(v) \/ SetQ(v) \/ EditGenerated("chk", v)
        \/ \E v \in BodyLens : SetBody(v) \/ SetBodyRefused(v) \/ EditGenerated("len", v) \/ EditGenerated("tag", v)
Spec == Init /\ [][Next]_vars

(* C16 *)
FieldIsGenerated == chk = GSum(p, q) /\ len = GLen(body)
Emit == ~Record \/ Len(hist) <= MaxOps \/ PrintT(<<"HIST", ToJson(hist)>>)
=============================================================================
