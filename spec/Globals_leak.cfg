SPECIFICATION Spec
CONSTANTS
  CapScope = "leak"
  OpState = "stateless"
  IncScope = "instance"
  MaxOps = 5
  Record = FALSE
  DefaultCap = 20
  RaisedCap = 1000
INVARIANT NonInterference
CHECK_DEADLOCK FALSE
