SPECIFICATION Spec
CONSTANTS
  Proto <- PTwoSnd
  FZ = {"F"}
  FilterByRecipient = FALSE
  Fault = "silent"
  FaultAt = 2
INVARIANT TypeOK
INVARIANT NoSpuriousError
INVARIANT ExactlyOnceInOrder
INVARIANT BadRemoteEndsRun
PROPERTY Terminates
PROPERTY BadRemoteLeadsToError
CHECK_DEADLOCK FALSE
