SPECIFICATION Spec
CONSTANTS
  FlushEnc = "latin1"
  OnlyLocallyAligned = TRUE
  Alphabet <- mcAlphabet
  MaxUnits <- mcMaxUnits
INVARIANT ViewsAgree
CHECK_DEADLOCK FALSE
