---------------------------- MODULE ParserCache ----------------------------
(***************************************************************************)
(* Parser._cache of language/grammar/parser/parser.py: the memo table that  *)
(* parse_forest fills *while* its generator is being consumed, and the      *)
(* requests that read it (parse = first tree, parse_forest/parse_multiple,  *)
(* API parse, the internal parses of fuzzing).  A key is (word, start,      *)
(* mode); the forest of a key is Forest[k] trees (abstractly 1..Forest[k]). *)
(*                                                                          *)
(* Two instantiations of the storing discipline:                            *)
(*   Discipline = "impl"  every pulled tree is appended to the entry; with  *)
(*                        include_controlflow a miss hands out the stored   *)
(*                        object and a hit yields nothing (as the code has) *)
(*   Discipline = "spec"  an entry is stored only when the forest was       *)
(*                        enumerated completely; callers only get copies    *)
(* Property C12: every request returns what the same request returns on a   *)
(* fresh object (HistoryIndependent), whatever happened before.             *)
(***************************************************************************)
EXTENDS Naturals, Sequences, FiniteSets, TLC, Json

CONSTANTS Keys, Forest, Discipline, MaxHist, EmitHistories

Kinds == {"first", "some", "all"}          \* take 1 / take 2 / consume everything
Want(kind, n) == CASE kind = "first" -> IF n >= 1 THEN 1 ELSE 0
                   [] kind = "some"  -> IF n >= 2 THEN 2 ELSE n
                   [] kind = "all"   -> n

\* a tree handed out or stored: its index in the forest and whether somebody edited it
Clean(j) == [idx |-> j, dirty |-> FALSE]
FreshResult(k, kind) == [j \in 1..Want(kind, Forest[k]) |-> Clean(j)]

VARIABLES
  cache,    \* key -> sequence of stored trees (absent keys are not in the domain)
  result,   \* what the last request handed out
  alias,    \* set of <<key, position>>: cache cells the caller holds a reference to
  hist,     \* requests so far (for replay)
  ok        \* FALSE once a request returned something a fresh object would not
vars == <<cache, result, alias, hist, ok>>

Init == cache = <<>> /\ result = <<>> /\ alias = {} /\ hist = <<>> /\ ok = TRUE

(* parse_forest(word, start, mode, include_controlflow = cf), consumed according to kind *)
Request(k, kind, cf) ==
  /\ Len(hist) < MaxHist
  /\ LET hit == k \in DOMAIN cache IN
     IF hit THEN
        \* serve deep copies of the stored trees; the impl forgets to yield with control flow
        LET stored == cache[k]
            out == IF Discipline = "impl" /\ cf THEN <<>>
                   ELSE [j \in 1..Want(kind, Len(stored)) |-> stored[j]]
        IN /\ result' = out
           /\ UNCHANGED <<cache, alias>>
           /\ ok' = (ok /\ out = FreshResult(k, kind))
     ELSE
        LET n == Want(kind, Forest[k])
            pulled == [j \in 1..n |-> Clean(j)]
            complete == kind = "all"
        IN /\ result' = pulled
           /\ cache' = IF Discipline = "impl"
                         THEN (IF n > 0 THEN cache @@ (k :> pulled) ELSE cache)
                         ELSE (IF complete THEN cache @@ (k :> pulled) ELSE cache)
           /\ alias' = IF Discipline = "impl" /\ cf THEN alias \cup {<<k, j>> : j \in 1..n} ELSE alias
           /\ ok' = (ok /\ pulled = FreshResult(k, kind))
  /\ hist' = Append(hist, [op |-> "req", k |-> k, kind |-> kind, cf |-> cf])

(* the caller edits every tree it was handed by earlier requests *)
Mutate ==
  /\ Len(hist) < MaxHist
  /\ hist # <<>> /\ hist[Len(hist)].op # "mut"
  /\ cache' = [k \in DOMAIN cache |->
                 [j \in 1..Len(cache[k]) |-> IF <<k, j>> \in alias THEN [cache[k][j] EXCEPT !.dirty = TRUE]
                                              ELSE cache[k][j]]]
  /\ hist' = Append(hist, [op |-> "mut", k |-> "", kind |-> "", cf |-> FALSE])
  /\ UNCHANGED <<result, alias, ok>>

Next == Mutate \/ \E k \in Keys, kind \in Kinds, cf \in BOOLEAN : Request(k, kind, cf)
Spec == Init /\ [][Next]_vars

HistoryIndependent == ok
\* a stored forest is always the complete, unedited forest (what makes the spec discipline work)
StoredComplete == Discipline = "spec" => \A k \in DOMAIN cache : cache[k] = FreshResult(k, "all")
\* prints every reachable history (used as CONSTRAINT; always TRUE)
Emit == IF EmitHistories /\ hist # <<>> THEN PrintT(<<"HIST", ToJson(hist)>>) ELSE TRUE
=============================================================================
