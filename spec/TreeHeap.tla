------------------------------- MODULE TreeHeap -------------------------------
(***************************************************************************)
(* Derivation trees as an object heap (language/tree.py): children lists,   *)
(* parent links, the cached size and the cached hash of every node, and the *)
(* public operations that edit or read trees.  One action per operation,    *)
(* written the way the code performs it (e.g. every structural setter ends  *)
(* in invalidate_hash(), which clears the cached hash and recomputes the    *)
(* cached size along the *current* parent chain).                           *)
(*                                                                          *)
(* Property C10: Inv_Size, Inv_Hash, Inv_Parent in every reachable state,   *)
(* and the read-only accessors / copying operations leave every existing    *)
(* node as it was (PureOps).                                                *)
(*                                                                          *)
(* SliceAsView = FALSE models the pinned commit (a slice node is built with *)
(* set_children and so re-parents the selected children), TRUE the repaired *)
(* behaviour (a slice lists its children without touching them).           *)
(***************************************************************************)
EXTENDS Naturals, Sequences, FiniteSets, TLC, SequencesExt, TreeHeapOps

CONSTANTS MaxNodes, Syms, Senders, MaxOps, SliceAsView, SliceSym, Record,
          Seeds      \* set of initial forests, each a sequence of [sym, parent] (parent = 0 for roots, parents first)

Ids == 1..MaxNodes
Nil == 0

VARIABLES heap,   \* Ids -> node record (only ids < next are allocated)
          next,   \* next free id
          steps,  \* number of operations so far
          hist    \* operations so far, each with the projected post-state (when Record)
vars == <<heap, next, hist, steps>>

Alloc == 1..(next - 1)
Blank == [sym |-> "", snd |-> "", ch |-> <<>>, parent |-> Nil, sizeC |-> 1, hashValid |-> FALSE, hashC |-> <<>>]

-----------------------------------------------------------------------------
RECURSIVE Ancestors(_,_,_)   \* parent chain of n (bounded walk)
Ancestors(h, n, k) == IF n = Nil \/ k = 0 THEN {} ELSE {n} \cup Ancestors(h, h[n].parent, k - 1)

(* invalidate_hash(): clear the cached hash and recompute the cached size up the parent chain *)
RECURSIVE InvalidateUp(_,_,_)
InvalidateUp(h, n, k) ==
  IF n = Nil \/ k = 0 THEN h
  ELSE LET sz == 1 + FoldLeft(LAMBDA acc, c : acc + h[c].sizeC, 0, h[n].ch)
           h2 == [h EXCEPT ![n].hashValid = FALSE, ![n].sizeC = sz]
       IN InvalidateUp(h2, h2[n].parent, k - 1)
Inval(h, n) == InvalidateUp(h, n, MaxNodes + 1)

(* set_children(cs): list cs, make n their parent, invalidate *)
SetCh(h, n, cs) ==
  Inval([x \in DOMAIN h |-> IF x = n THEN [h[x] EXCEPT !.ch = cs]
                            ELSE IF x \in Range(cs) THEN [h[x] EXCEPT !.parent = n] ELSE h[x]], n)

(* hash(n): computes and caches the hash of n and of every node below it that has none *)
RECURSIVE HashAll(_,_)
HashAll(h, ns) == IF ns = <<>> THEN h
  ELSE LET n == Head(ns) IN
       HashAll(IF h[n].hashValid THEN h ELSE [h EXCEPT ![n].hashValid = TRUE, ![n].hashC = Struct(h, n)], Tail(ns))
\* the hash of a node whose cached value is valid is not recomputed, so nothing below it is visited
RECURSIVE HashVisit(_,_)
HashVisit(h, n) == IF h[n].hashValid THEN <<>> ELSE FoldLeft(LAMBDA acc, c : acc \o HashVisit(h, c), <<>>, h[n].ch) \o <<n>>

(* copy of the subtree below n into fresh ids ids (pre-order), parent of the copy's root = p *)
CopyInto(h, n, first, p) ==
  LET d == Desc(h, n)
      idOf(x) == first + (CHOOSE i \in 1..Len(d) : d[i] = x) - 1
      h2 == [x \in DOMAIN h |->
               IF x >= first /\ x < first + Len(d)
               THEN LET o == d[x - first + 1] IN
                    [sym |-> h[o].sym, snd |-> h[o].snd, ch |-> [i \in 1..Len(h[o].ch) |-> idOf(h[o].ch[i])],
                     parent |-> IF o = n THEN p ELSE idOf(h[o].parent), sizeC |-> TrueSize(h, o),
                     hashValid |-> FALSE, hashC |-> <<>>]
               ELSE h[x]]
  IN h2

-----------------------------------------------------------------------------
Proj(h, nx) == [n \in 1..(nx - 1) |-> [sym |-> h[n].sym, snd |-> h[n].snd, ch |-> h[n].ch, parent |-> h[n].parent, size |-> h[n].sizeC]]
Log(op, args, h, nx) == IF Record THEN Append(hist, [op |-> op, args |-> args, post |-> Proj(h, nx)])
                        ELSE <<[op |-> op, args |-> args]>>      \* only the last operation (keeps the state space small)
CanStep == steps < MaxOps

(* a forest given as <<[sym, parent], ...>> (ids in order, parents before children) *)
MkHeap(nodes) ==
  LET n == Len(nodes)
      kids(x) == SelectSeq([i \in 1..n |-> i], LAMBDA i : nodes[i].parent = x)
      h0 == [x \in Ids |-> IF x <= n THEN [Blank EXCEPT !.sym = nodes[x].sym, !.parent = nodes[x].parent, !.ch = kids(x)] ELSE Blank]
  IN [x \in Ids |-> IF x <= n THEN [h0[x] EXCEPT !.sizeC = TrueSize(h0, x)] ELSE Blank]
Init == \E sd \in Seeds : /\ Len(sd) <= MaxNodes
                          /\ heap = MkHeap(sd) /\ next = Len(sd) + 1
                          /\ hist = (IF Record THEN <<[op |-> "seed", args |-> sd, post |-> Proj(MkHeap(sd), Len(sd) + 1)]>> ELSE <<>>)
                          /\ steps = 0

New(s) ==
  /\ CanStep /\ next <= MaxNodes
  /\ heap' = [heap EXCEPT ![next] = [Blank EXCEPT !.sym = s]]
  /\ next' = next + 1
  /\ steps' = steps + 1 /\ hist' = Log("new", <<s>>, heap', next')

(* p.add_child(c) - c is a root that is not above p (the caller does not build cycles or share nodes) *)
AddChild(p, c) ==
  /\ CanStep /\ p \in Alloc /\ c \in Alloc /\ heap[p].sym # SliceSym
  /\ heap[c].parent = Nil /\ heap[c].sym # SliceSym /\ c \notin Ancestors(heap, p, MaxNodes + 1)
  /\ heap' = Inval([heap EXCEPT ![p].ch = Append(@, c), ![c].parent = p], p)
  /\ UNCHANGED next
  /\ steps' = steps + 1 /\ hist' = Log("add_child", <<p, c>>, heap', next)

(* p.set_children(...) with a sub-list / permutation of its current children *)
SetChildrenTo(p, how) ==
  /\ CanStep /\ p \in Alloc /\ heap[p].sym # SliceSym /\ Len(heap[p].ch) > 0
  /\ LET cs == CASE how = "drop_last" -> SubSeq(heap[p].ch, 1, Len(heap[p].ch) - 1)
                 [] how = "reverse" -> Reverse(heap[p].ch)
                 [] how = "clear" -> <<>>
     IN heap' = SetCh(heap, p, cs)
  /\ UNCHANGED next
  /\ steps' = steps + 1 /\ hist' = Log("set_children", <<p, how>>, heap', next)

SetSymbol(n, s) ==
  /\ CanStep /\ n \in Alloc /\ heap[n].sym # SliceSym /\ heap[n].sym # s
  /\ heap' = Inval([heap EXCEPT ![n].sym = s], n)
  /\ UNCHANGED next
  /\ steps' = steps + 1 /\ hist' = Log("set_symbol", <<n, s>>, heap', next)

SetSender(n, s) ==
  /\ CanStep /\ n \in Alloc /\ heap[n].sym # SliceSym /\ heap[n].snd # s
  /\ heap' = Inval([heap EXCEPT ![n].snd = s], n)
  /\ UNCHANGED next
  /\ steps' = steps + 1 /\ hist' = Log("set_sender", <<n, s>>, heap', next)

Hash(n) ==
  /\ CanStep /\ n \in Alloc /\ ~heap[n].hashValid
  /\ heap' = HashAll(heap, HashVisit(heap, n))
  /\ UNCHANGED next
  /\ steps' = steps + 1 /\ hist' = Log("hash", <<n>>, heap', next)

(* n.deepcopy(copy_children=True, copy_parent=False, copy_params=False) *)
DeepCopy(n) ==
  /\ CanStep /\ n \in Alloc /\ heap[n].sym # SliceSym
  /\ next + TrueSize(heap, n) - 1 <= MaxNodes
  /\ heap' = CopyInto(heap, n, next, Nil)
  /\ next' = next + TrueSize(heap, n)
  /\ steps' = steps + 1 /\ hist' = Log("deepcopy", <<n>>, heap', next')

(* n[i:j]  (1-based, inclusive here) *)
GetSlice(n, i, j) ==
  /\ CanStep /\ n \in Alloc /\ next <= MaxNodes /\ heap[n].sym # SliceSym
  /\ 1 <= i /\ i <= j /\ j <= Len(heap[n].ch)
  /\ LET cs == SubSeq(heap[n].ch, i, j)
         withNode == [heap EXCEPT ![next] = [Blank EXCEPT !.sym = SliceSym]]
     IN heap' = IF SliceAsView
                  THEN [withNode EXCEPT ![next].ch = cs,
                                        ![next].sizeC = 1 + FoldLeft(LAMBDA acc, c : acc + heap[c].sizeC, 0, cs)]
                  ELSE SetCh(withNode, next, cs)            \* as SliceTree.__init__ did: re-parents cs
  /\ next' = next + 1
  /\ steps' = steps + 1 /\ hist' = Log("slice", <<n, i, j>>, heap', next')

(* r.replace(grammar, t, u): a new tree, every node rebuilt, t's place taken by a copy of u
   (only if the symbols coincide); r is a root, t below r, u any node *)
Replace(r, t, u) ==
  /\ CanStep /\ r \in Alloc /\ heap[r].parent = Nil /\ heap[r].sym # SliceSym
  /\ t \in Range(Desc(heap, r)) /\ u \in Alloc /\ heap[u].sym # SliceSym
  /\ \A x \in Range(Desc(heap, r)) \cup Range(Desc(heap, u)) : heap[x].sym # SliceSym
  /\ LET same == heap[t].sym = heap[u].sym
         \* the result as a structure over old ids: walk r, substituting u at t
         newSize == IF same THEN TrueSize(heap, r) - TrueSize(heap, t) + TrueSize(heap, u) ELSE TrueSize(heap, r)
     IN /\ next + newSize - 1 <= MaxNodes
        /\ LET \* build by copying r, then (if same) re-pointing the copy of t to a copy of u
               base == next
               RECURSIVE Build(_,_,_,_,_)
               \* Build(h, o, at, p, ins): copy node o (of the old heap) to id `at` with parent p, children follow in
               \* pre-order; ins = already inside the inserted copy of u (paths there never match t's path again);
               \* returns [h, nx] where nx is the next free id
               Build(h, o, at, p, ins) ==
                 LET subst == same /\ o = t /\ ~ins
                     src == IF subst THEN u ELSE o
                     kids == heap[src].ch
                     RECURSIVE Kids(_,_,_,_)
                     Kids(hh, i, nx, acc) ==
                       IF i > Len(kids) THEN [h |-> hh, nx |-> nx, ch |-> acc]
                       ELSE LET b == Build(hh, kids[i], nx, at, ins \/ subst) IN Kids(b.h, i + 1, b.nx, Append(acc, nx))
                     k == Kids(h, 1, at + 1, <<>>)
                     node == [sym |-> heap[src].sym,
                              snd |-> heap[src].snd,
                              ch |-> k.ch, parent |-> p,
                              sizeC |-> 1 + FoldLeft(LAMBDA acc, c : acc + k.h[c].sizeC, 0, k.ch),
                              hashValid |-> FALSE, hashC |-> <<>>]
                 IN [h |-> [k.h EXCEPT ![at] = node], nx |-> k.nx]
               res == Build(heap, r, base, Nil, FALSE)
           IN /\ heap' = res.h
              /\ next' = res.nx
              /\ steps' = steps + 1 /\ hist' = Log("replace", <<r, t, u>>, heap', next')

(* n.split_end(copy_tree=False): drop everything to the right of the path from the root to n, in place *)
RECURSIVE SplitUp(_,_,_)
SplitUp(h, n, k) ==
  IF k = 0 \/ h[n].parent = Nil THEN h
  ELSE LET p == h[n].parent
           idx == CHOOSE i \in 1..Len(h[p].ch) : h[p].ch[i] = n
           h2 == SplitUp(h, p, k - 1)
       IN SetCh(h2, p, SubSeq(h[p].ch, 1, idx))
SplitEnd(n) ==
  /\ CanStep /\ n \in Alloc /\ heap[n].parent # Nil /\ heap[n].sym # SliceSym
  /\ \A a \in Ancestors(heap, n, MaxNodes + 1) : heap[a].sym # SliceSym /\ (heap[a].parent # Nil => a \in Range(heap[heap[a].parent].ch))
  /\ heap' = SplitUp(heap, n, MaxNodes + 1)
  /\ UNCHANGED next
  /\ steps' = steps + 1 /\ hist' = Log("split_end", <<n>>, heap', next)

Next ==
  \/ \E s \in Syms : New(s)
  \/ \E p, c \in Ids : AddChild(p, c)
  \/ \E p \in Ids, how \in {"drop_last", "reverse", "clear"} : SetChildrenTo(p, how)
  \/ \E n \in Ids, s \in Syms : SetSymbol(n, s)
  \/ \E n \in Ids, s \in Senders : SetSender(n, s)
  \/ \E n \in Ids : Hash(n) \/ DeepCopy(n) \/ SplitEnd(n)
  \/ \E n \in Ids, i, j \in 1..MaxNodes : GetSlice(n, i, j)
  \/ \E r, t, u \in Ids : Replace(r, t, u)
Spec == Init /\ [][Next]_vars

-----------------------------------------------------------------------------
IsSlice(n) == heap[n].sym = SliceSym
\* slice nodes are views: their own caches are asserted when they are created, not across later edits below them
Inv_Size   == SizeOK(heap, Alloc, SliceSym)
Inv_Hash   == \A n \in Alloc : (~IsSlice(n) /\ heap[n].hashValid) => heap[n].hashC = Struct(heap, n)
Inv_Parent == ParentOK(heap, Alloc, SliceSym)

(* the operations that must not touch existing nodes: hash, deepcopy, slice, replace *)
Untouched == \A n \in Alloc : /\ Struct(heap', n) = Struct(heap, n)
                              /\ heap'[n].parent = heap[n].parent
                              /\ heap'[n].ch = heap[n].ch
PureOps == [][ (hist' # hist /\ hist'[Len(hist')].op \in {"hash", "deepcopy", "slice", "replace"}) => Untouched ]_vars
=============================================================================
