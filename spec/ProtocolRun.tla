------------------------------ MODULE ProtocolRun ------------------------------
(***************************************************************************)
(* The protocol run loop (evolution/algorithm.py _generate_io,              *)
(* io/packetparser.py parse_next_remote_packet, io/__init__.py FandangoIO): *)
(* the fuzzer alternates between sending its own next message and parsing   *)
(* fragments received from external parties into the expected message type. *)
(* One action per critical section; the environment (peers putting units on *)
(* the wire, units arriving in any interleaving of the per-connection FIFO  *)
(* channels) is separately enabled so that TLC explores the races.          *)
(*                                                                          *)
(* FilterByRecipient = FALSE: fragments are selected and cleared by sender  *)
(*   only (_find_next_fragment / clear_by_party of the pinned commit);      *)
(* FilterByRecipient = TRUE : by (sender, recipient).                       *)
(* Fault / FaultAt: the behaviour of the peer for message FaultAt:          *)
(*   "none" valid, "wrong" units of another message, "truncated" only the   *)
(*   first unit, "silent" nothing.                                          *)
(* Properties (C20): NoSpuriousError, ExactlyOnceInOrder, BadRemoteEndsRun, *)
(* Terminates.                                                              *)
(***************************************************************************)
EXTENDS Naturals, Sequences, FiniteSets, TLC, SequencesExt

\* A linear protocol: sequence of messages [snd, rcp, ty, units]; Fuzzer-side parties in FZ.
CONSTANTS Proto, FZ, FilterByRecipient, Fault, FaultAt

Ext(m) == m.snd \notin FZ
N == Len(Proto)

VARIABLES hist,      \* number of protocol messages completed (history = Proto[1..hist])
          sent,      \* per external message index: has the peer put it on the wire?
          chan,      \* in flight: function from <<snd, rcp>> to sequence of [u, k] (unit, message index)
          buf,       \* receive buffer: sequence of [snd, rcp, u, k]
          phase,     \* "idle" | "parsing" | "done" | "error"
          cur,       \* parse in progress: [snd, matched (number of units), idx (last consumed buffer index)]
          consumed   \* history variable: per external message index, sequence of units consumed into it
vars == <<hist, sent, chan, buf, phase, cur, consumed>>

Chans == { <<Proto[k].snd, Proto[k].rcp>> : k \in {j \in 1..N : Ext(Proto[j])} }
NoCur == [snd |-> "", matched |-> 0, idx |-> 0]

Init == /\ hist = 0 /\ sent = [k \in 1..N |-> FALSE]
        /\ chan = [c \in Chans |-> <<>>] /\ buf = <<>> /\ phase = "idle" /\ cur = NoCur
        /\ consumed = [k \in 1..N |-> <<>>]

\* ---------------- environment: a well-behaved peer
\* the peer sends its message k once everything before k has been sent by someone
\* (a peer answers after it has seen the fuzzer's message; two consecutive peer messages go out back to back)
UnitsOf(k) == IF k # FaultAt \/ Fault = "none" THEN Proto[k].units
              ELSE IF Fault = "wrong" THEN <<"?">> \o Proto[k].units
              ELSE IF Fault = "truncated" THEN <<Head(Proto[k].units)>>
              ELSE <<>>                                  \* silent
PeerSend(k) == /\ Ext(Proto[k]) /\ ~sent[k]
               /\ \A j \in 1..(k-1) : IF Ext(Proto[j]) THEN sent[j] ELSE hist >= j
               /\ sent' = [sent EXCEPT ![k] = TRUE]
               /\ chan' = [chan EXCEPT ![<<Proto[k].snd, Proto[k].rcp>>] =
                                @ \o [x \in 1..Len(UnitsOf(k)) |-> [u |-> UnitsOf(k)[x], k |-> k]]]
               /\ UNCHANGED <<hist, buf, phase, cur, consumed>>
\* units of different connections arrive in any interleaving, each connection is FIFO
Arrive(c) == /\ chan[c] # <<>>
             /\ buf' = Append(buf, [snd |-> c[1], rcp |-> c[2], u |-> Head(chan[c]).u, k |-> Head(chan[c]).k])
             /\ chan' = [chan EXCEPT ![c] = Tail(@)]
             /\ UNCHANGED <<hist, sent, phase, cur, consumed>>

\* ---------------- fuzzer loop
Next1 == hist + 1
FuzzSend == /\ phase = "idle" /\ hist < N /\ ~Ext(Proto[Next1]) /\ buf = <<>>
            /\ hist' = hist + 1 /\ UNCHANGED <<sent, chan, buf, phase, cur, consumed>>
Finish == /\ phase = "idle" /\ hist = N /\ phase' = "done"
          /\ UNCHANGED <<hist, sent, chan, buf, cur, consumed>>

Relevant(e, m) == e.snd = m.snd /\ (FilterByRecipient => e.rcp = m.rcp)

StartParse == /\ phase = "idle" /\ hist < N /\ Ext(Proto[Next1])
              /\ \E i \in 1..Len(buf) : buf[i].snd = Proto[Next1].snd
              /\ phase' = "parsing" /\ cur' = [snd |-> Proto[Next1].snd, matched |-> 0, idx |-> 0]
              /\ UNCHANGED <<hist, sent, chan, buf, consumed>>

NextFrag == LET m == Proto[Next1]
                S == { i \in (cur.idx+1)..Len(buf) : Relevant(buf[i], m) }
            IN IF S = {} THEN 0 ELSE CHOOSE i \in S : \A j \in S : i <= j

Consume == /\ phase = "parsing" /\ NextFrag # 0
           /\ LET m == Proto[Next1]  i == NextFrag IN
              IF buf[i].u = m.units[cur.matched + 1]
              THEN /\ consumed' = [consumed EXCEPT ![Next1] = Append(@, buf[i])]
                   /\ IF cur.matched + 1 = Len(m.units)
                      THEN \* complete: clear_by_party(sender, idx)
                           /\ LET kept == SelectSeq([x \in 1..Len(buf) |-> [e |-> buf[x], pos |-> x]],
                                                  LAMBDA r : ~(Relevant(r.e, m) /\ r.pos <= i))
                              IN buf' = [x \in 1..Len(kept) |-> kept[x].e]
                           /\ hist' = hist + 1 /\ phase' = "idle" /\ cur' = NoCur
                      ELSE /\ cur' = [cur EXCEPT !.matched = @ + 1, !.idx = i]
                           /\ UNCHANGED <<buf, hist, phase>>
              ELSE /\ phase' = "error" /\ UNCHANGED <<buf, hist, cur, consumed>>
           /\ UNCHANGED <<sent, chan>>
\* waiting for a remote message that will not (completely) come: everything the peers will ever send has arrived
Quiet == (\A c \in Chans : chan[c] = <<>>) /\ \A k \in 1..N : Ext(Proto[k]) => (sent[k] \/ \E j \in 1..(k-1) : ~Ext(Proto[j]) /\ hist < j)
Timeout == /\ phase \in {"idle", "parsing"} /\ hist < N /\ Ext(Proto[Next1]) /\ Quiet
           /\ (phase = "parsing" => NextFrag = 0)
           /\ (phase = "idle" => ~\E i \in 1..Len(buf) : buf[i].snd = Proto[Next1].snd)
           /\ phase' = "error" /\ UNCHANGED <<hist, sent, chan, buf, cur, consumed>>

Next == \/ \E k \in 1..N : PeerSend(k) \/ \E c \in Chans : Arrive(c)
        \/ FuzzSend \/ StartParse \/ Consume \/ Finish \/ Timeout
Spec == Init /\ [][Next]_vars /\ WF_vars(Next)

\* buf entries after the clear are wrapped records; unwrap for later steps
TypeOK == phase \in {"idle", "parsing", "done", "error"}
NoSpuriousError == phase = "error" => Fault # "none"
\* a remote message that fits no expected type / is cut short / never comes ends the run with an error; it is not accepted
BadRemoteEndsRun == Fault # "none" => hist < FaultAt
BadRemoteLeadsToError == (Fault # "none") => <>(phase = "error")
ExactlyOnceInOrder == \A k \in 1..N : Ext(Proto[k]) /\ hist >= k =>
      /\ [x \in 1..Len(consumed[k]) |-> consumed[k][x].u] = Proto[k].units
      /\ \A x \in 1..Len(consumed[k]) : consumed[k][x].k = k /\ consumed[k][x].rcp = Proto[k].rcp
Terminates == <>(phase \in {"done", "error"})
=============================================================================
