----------------------------- MODULE EarleyChart -----------------------------
(***************************************************************************)
(* Character-level chart parser over the rules the implementation itself    *)
(* compiled (its `_rules` and `_implicit_rules`: alternatives, sequences,    *)
(* options and bounded repetitions become helper rules), for conformance of  *)
(* the real chart (C05 / C06): predict - with the catch-up over symbols that *)
(* were already completed empty in the column (Earley.tla, CatchUp) - scan   *)
(* of multi-character literals, complete.  Items are identified by their    *)
(* core (rule, dot, origin), which is what the comparison is about: the     *)
(* children an implementation item carries do not matter here.              *)
(*                                                                           *)
(* Cases (IOEnv.CASES, ndjson), recorded from real parses:                   *)
(*   {"rules":[{"lhs":n,"rhs":[{"t":bool,"id":n,"cps":[..]}..]}..],          *)
(*    "start":n, "input":[cps], "chart":[[{"r":i,"dot":d,"origin":o}..]..]}  *)
(* For every case the closure is computed (one behaviour per case) and, at  *)
(* quiescence, compared column by column with the recorded chart: equal on  *)
(* every column but the last (the implementation snapshots its table when it *)
(* starts on the last column), contained in the model's for the last one.   *)
(***************************************************************************)
EXTENDS Naturals, Sequences, FiniteSets, TLC, Json, IOUtils, SequencesExt

Cases == ndJsonDeserialize(IOEnv.CASES)

VARIABLES ci, chart, todo, reported
vars == <<ci, chart, todo, reported>>

C == Cases[ci]
N == Len(C.input)
Rule(it) == C.rules[it.r]
Finished(it) == it.dot = Len(Rule(it).rhs)
NextSym(it) == Rule(it).rhs[it.dot + 1]
Item(r, d, o) == [r |-> r, dot |-> d, origin |-> o]
StartItems == { Item(j, 0, 0) : j \in { j \in 1..Len(C.rules) : C.rules[j].lhs = C.start } }

Init == /\ ci \in 1..Len(Cases)
        /\ chart = [k \in 0..Len(Cases[ci].input) |-> IF k = 0 THEN { Item(j, 0, 0) : j \in { j \in 1..Len(Cases[ci].rules) : Cases[ci].rules[j].lhs = Cases[ci].start } } ELSE {}]
        /\ todo = { <<0, it>> : it \in { Item(j, 0, 0) : j \in { j \in 1..Len(Cases[ci].rules) : Cases[ci].rules[j].lhs = Cases[ci].start } } }
        /\ reported = FALSE

Add(t, k, cands) ==
  LET new == cands \ chart[k] IN
  /\ chart' = [chart EXCEPT ![k] = @ \cup new]
  /\ todo' = (todo \ {t}) \cup { <<k, it>> : it \in new }

Step ==
  /\ todo # {}
  /\ LET t == CHOOSE t \in todo : TRUE  k == t[1]  it == t[2] IN
     IF Finished(it)
     THEN \* complete
          Add(t, k, { [p EXCEPT !.dot = @ + 1] : p \in { p \in chart[it.origin] : ~Finished(p) /\ ~NextSym(p).t /\ NextSym(p).id = Rule(it).lhs } })
     ELSE IF ~NextSym(it).t
          THEN \* predict, and advance over an empty derivation of the symbol that is already finished in this column
               Add(t, k, { Item(j, 0, k) : j \in { j \in 1..Len(C.rules) : C.rules[j].lhs = NextSym(it).id } }
                         \cup (IF \E f \in chart[k] : Finished(f) /\ f.origin = k /\ Rule(f).lhs = NextSym(it).id
                               THEN { [it EXCEPT !.dot = @ + 1] } ELSE {}))
          ELSE \* scan a literal of any length (the empty literal stays in the column)
               LET w == NextSym(it).cps  e == k + Len(w) IN
               IF e <= N /\ SubSeq(C.input, k + 1, e) = w
               THEN Add(t, e, { [it EXCEPT !.dot = @ + 1] })
               ELSE /\ todo' = todo \ {t} /\ UNCHANGED chart
  /\ UNCHANGED <<ci, reported>>

Accepts == \E it \in chart[N] : Finished(it) /\ it.origin = 0 /\ Rule(it).lhs = C.start     \* the model's own verdict on the input
Recorded(k) == ToSet(C.chart[k + 1])
Diff(k) == [k |-> k, missing |-> chart[k] \ Recorded(k), extra |-> Recorded(k) \ chart[k]]
Mismatch == { k \in 0..N : IF k < N THEN chart[k] # Recorded(k) ELSE ~(Recorded(k) \subseteq chart[k]) }
Report ==
  /\ todo = {} /\ ~reported
  /\ reported' = TRUE
  /\ IF Mismatch = {} THEN PrintT(<<"CHART-OK", ci, Accepts>>)
     ELSE PrintT(<<"CHART-BAD", ci, Accepts, ToJson([k \in Mismatch |-> Diff(k)])>>)
  /\ UNCHANGED <<ci, chart, todo>>

Next == Step \/ Report
Spec == Init /\ [][Next]_vars
=============================================================================
