INIT BInit
NEXT BNext
CHECK_DEADLOCK FALSE
