SPECIFICATION Spec
CONSTANTS
  Rules <- RPlus
  NT = {"S","P","B","O"}
  Start = "S"
  Input <- InPlusPrefix
  PrefixMode = TRUE
  AdmitByCore = TRUE
  CatchUp = "always"
  AnyOrder = FALSE
  MaxSize = 40
INVARIANT Bounded
PROPERTY Terminates
CHECK_DEADLOCK FALSE
