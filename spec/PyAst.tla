--------------------------------- MODULE PyAst ---------------------------------
(***************************************************************************)
(* The space of Python programs embedded in a spec (helper code,            *)
(* constraints, generators, repetition bounds), as abstract syntax:         *)
(* a node is [c |-> constructor, a |-> variant, xs |-> children].           *)
(* D1 = every constructor in every field-presence / operator variant with   *)
(*      atomic children; D2 = every expression slot of every constructor    *)
(*      filled with every D1 expression (precedence, parenthesisation,      *)
(*      chained comparisons, starred elements, parameter kinds, f-string    *)
(*      parts).  TLC enumerates both sets exhaustively and writes them out; *)
(* the harness renders each with CPython's ast.unparse, pushes it through   *)
(* Fandango's front end and compares abstract syntax (C08).                 *)
(* Expected outcome relation: Identity, or Reject for the constructs in     *)
(* Unsupported - never "accepted and different".                            *)
(***************************************************************************)
EXTENDS Naturals, Sequences, FiniteSets, TLC, Json, IOUtils, SequencesExt

N(c, a, xs) == [c |-> c, a |-> a, xs |-> xs]
A == N("Name", "a", <<>>)
B == N("Name", "b", <<>>)
C == N("Name", "c", <<>>)
One == N("Const", "1", <<>>)
Str == N("Const", "'s'", <<>>)

BinOps == {"Add", "Sub", "Mult", "MatMult", "Div", "Mod", "Pow", "LShift", "RShift", "BitOr", "BitXor", "BitAnd", "FloorDiv"}
BoolOps == {"And", "Or"}
UnaryOps == {"Invert", "Not", "UAdd", "USub"}
CmpOps == {"Eq", "NotEq", "Lt", "LtE", "Gt", "GtE", "Is", "IsNot", "In", "NotIn"}
Consts == {"1", "0x1F", "1e3", "2j", "'s'", "'it\\'s'", "b'\\x00a'", "None", "True", "False", "...", "'a\\nb'", "1000000"}
SliceVariants == {"::", "l::", ":u:", "::s", "l:u:", "l::s", ":u:s", "l:u:s"}
CallVariants == {"none", "pos", "pos2", "star", "kw", "dstar", "mixed"}
LambdaVariants == {"none", "args", "defaults", "vararg", "kwonly", "kwarg", "all"}
FStrVariants == {"text", "expr", "conv_r", "conv_s", "conv_a", "spec", "nested_spec", "debug", "text_expr_text", "braces"}
CompVariants == {"plain", "if", "ifif", "two_for", "tuple_target"}
ArgsVariants == {"none", "args", "posonly", "defaults", "vararg", "kwonly", "kwonly_defaults", "kwarg", "annotations", "returns", "all"}

(* expression constructors over explicit children *)
ExprOver(x, y, z) ==
     { N("BinOp", op, <<x, y>>) : op \in BinOps }
  \cup { N("BoolOp", op, <<x, y>>) : op \in BoolOps } \cup { N("BoolOp", op, <<x, y, z>>) : op \in BoolOps }
  \cup { N("UnaryOp", op, <<x>>) : op \in UnaryOps }
  \cup { N("Compare", op, <<x, y>>) : op \in CmpOps }
  \cup { N("Compare2", op, <<x, y, z>>) : op \in {"Lt", "Eq", "In", "IsNot"} }
  \cup { N("IfExp", "", <<x, y, z>>) }
  \cup { N("Call", v, <<x, y, z>>) : v \in CallVariants }
  \cup { N("Attribute", "attr", <<x>>) }
  \cup { N("Subscript", "index", <<x, y>>), N("Subscript", "tuple", <<x, y, z>>), N("Subscript", "ellipsis", <<x>>), N("Subscript", "one_tuple", <<x, y>>) }
  \cup { N("SubscriptSlice", v, <<x, y>>) : v \in SliceVariants }
  \cup { N("SubscriptSlices", "l:u:,::s", <<x, y, z>>) }
  \cup { N(k, v, <<x, y>>) : k \in {"List", "Tuple", "Set"}, v \in {"plain", "starred"} }
  \cup { N("Tuple", "single", <<x>>), N("List", "empty", <<>>), N("Tuple", "empty", <<>>), N("Dict", "empty", <<>>) }
  \cup { N("Dict", v, <<x, y, z>>) : v \in {"plain", "dstar"} }
  \cup { N(k, v, <<x, y, z>>) : k \in {"ListComp", "SetComp", "GeneratorExp", "DictComp"}, v \in CompVariants }
  \cup { N("Lambda", v, <<x>>) : v \in LambdaVariants }
  \cup { N("JoinedStr", v, <<x, y>>) : v \in FStrVariants }
  \cup { N("NamedExpr", "", <<x>>) }
  \cup { N("Starred", "call", <<x>>) }
  \cup { N("ConcatStr", "", <<>>) }
(* parameter lists, composed: positional-only part, ordinary part, star part, keyword-only part, ** part - every legal  *)
(* combination (a default before a parameter without one is legal only in the keyword-only part)                     *)
SigPO == {"", "a", "a=1"}
SigRE == {"", "p", "p=2", "p, q", "p, q=2", "p=1, q=2"}
SigST == {"none", "bare", "var"}
SigKO == {"", "k", "k=1", "k, m", "k, m=4", "k=1, m", "k=1, m=4"}
SigKW == {"", "**kw"}
Sigs == { s \in [po : SigPO, re : SigRE, st : SigST, ko : SigKO, kw : SigKW] :
            /\ (s.st = "bare" => s.ko # "") /\ (s.ko # "" => s.st # "none")
            /\ (s.po = "a=1" => s.re \in {"", "p=2", "p=1, q=2"}) }
(* displays and argument lists, composed: every sequence of up to three entries of every kind (the harness drops the  *)
(* sequences Python itself rejects, e.g. a positional argument after a keyword argument)                              *)
SeqsUpTo(S, n) == UNION { [1..k -> S] : k \in 1..n }
RECURSIVE Joined(_)
Joined(sq) == IF Len(sq) = 1 THEN sq[1] ELSE sq[1] \o "," \o Joined(Tail(sq))
Shape(sq) == "shape:" \o Joined(sq)                     \* variants are strings: "shape:kv,ds,kv"
SigStr(g) == "sig:" \o g.po \o "|" \o g.re \o "|" \o g.st \o "|" \o g.ko \o "|" \o g.kw
ShapeExprs ==
     { N("Dict", Shape(sh), <<A, B, C>>) : sh \in SeqsUpTo({"kv", "ds"}, 3) }
  \cup { N(k, Shape(sh), <<A, B, C>>) : k \in {"List", "Tuple", "Set"}, sh \in SeqsUpTo({"e", "st"}, 3) }
  \cup { N("Call", Shape(sh), <<A, B, C>>) : sh \in SeqsUpTo({"p", "st", "kw", "ds"}, 3) }
  \cup { N("Lambda", SigStr(sg), <<A>>) : sg \in Sigs }
SigStmts == { N("FunctionDef", SigStr(sg), <<A>>) : sg \in Sigs }
ConstNodes == { N("Const", v, <<>>) : v \in Consts }
D1Expr == ExprOver(A, B, C) \cup ConstNodes \cup {A}

(* slot templates: one hole h, everything else atomic *)
Slots(h) ==
     { N("BinOp", op, <<h, B>>) : op \in BinOps } \cup { N("BinOp", op, <<A, h>>) : op \in BinOps }
  \cup { N("BoolOp", op, <<h, B>>) : op \in BoolOps } \cup { N("BoolOp", op, <<A, h>>) : op \in BoolOps }
  \cup { N("UnaryOp", op, <<h>>) : op \in UnaryOps }
  \cup { N("Compare", op, <<h, B>>) : op \in {"Eq", "Lt", "In", "IsNot", "NotIn"} } \cup { N("Compare", op, <<A, h>>) : op \in {"Eq", "Lt", "In", "IsNot", "NotIn"} }
  \cup { N("IfExp", "", <<h, B, C>>), N("IfExp", "", <<A, h, C>>), N("IfExp", "", <<A, B, h>>) }
  \cup { N("Call", "pos", <<h, B, C>>), N("Call", "pos", <<A, h, C>>), N("Call", "kw", <<A, h, C>>), N("Call", "star", <<A, h, C>>), N("Call", "dstar", <<A, h, C>>) }
  \cup { N("Attribute", "attr", <<h>>), N("Subscript", "index", <<h, B>>), N("Subscript", "index", <<A, h>>) }
  \cup { N("SubscriptSlice", "l:u:", <<A, h>>), N("SubscriptSlice", "::s", <<A, h>>) }
  \cup { N("List", "plain", <<h, B>>), N("Tuple", "plain", <<h, B>>), N("Set", "plain", <<A, h>>), N("List", "starred", <<A, h>>), N("Dict", "plain", <<h, B, C>>), N("Dict", "plain", <<A, h, C>>) }
  \cup { N("ListComp", "plain", <<h, B, C>>), N("ListComp", "if", <<A, B, h>>), N("GeneratorExp", "plain", <<A, B, h>>), N("DictComp", "plain", <<A, h, C>>) }
  \cup { N("Lambda", "args", <<h>>), N("Lambda", "none", <<h>>) }
  \cup { N("JoinedStr", "expr", <<h, B>>), N("JoinedStr", "spec", <<h, B>>), N("JoinedStr", "conv_r", <<h, B>>) }
D2Expr == UNION { Slots(h) : h \in D1Expr }

(* statements: every constructor / variant with atomic parts; expression slots are filled from D1Expr separately *)
AugOps == BinOps
StmtOver(e) ==
     { N("Assign", v, <<e>>) : v \in {"single", "multi", "tuple_target", "starred_target", "attr_target", "subscript_target",
                                       "one_tuple_value", "one_tuple_target", "one_tuple_aug"} }   \* x = e,   x, = e   x += e,
  \cup { N("AugAssign", op, <<e>>) : op \in AugOps }
  \cup { N("AnnAssign", v, <<e>>) : v \in {"value", "novalue", "attr"} }
  \cup { N("ExprStmt", "", <<e>>), N("Delete", "names", <<>>), N("Delete", "subscript", <<>>), N("Pass", "", <<>>) }
  \cup { N("If", v, <<e>>) : v \in {"plain", "else", "elif", "elif_else"} }
  \cup { N("While", v, <<e>>) : v \in {"plain", "else", "break_continue"} }
  \cup { N("For", v, <<e>>) : v \in {"plain", "else", "tuple_target", "one_tuple_target", "async"} }
  \cup { N("With", v, <<e>>) : v \in {"plain", "as", "two", "async"} }
  \cup { N("Try", v, <<e>>) : v \in {"except", "except_type", "except_as", "except_tuple", "else", "finally", "only_finally", "two_handlers"} }
  \cup { N("Raise", v, <<e>>) : v \in {"bare", "exc", "from"} }
  \cup { N("Assert", v, <<e>>) : v \in {"plain", "msg"} }
  \cup { N("Import", v, <<>>) : v \in {"plain", "as", "dotted", "two"} }
  \cup { N("ImportFrom", v, <<>>) : v \in {"plain", "as", "relative1", "relative2", "star", "two"} }
  \cup { N("FunctionDef", v, <<e>>) : v \in ArgsVariants }
  \cup { N("FunctionDef", v, <<e>>) : v \in {"decorator", "decorator_call", "async", "global", "nonlocal", "yield", "yield_from", "await", "return_none", "docstring", "nested", "return_one_tuple", "yield_one_tuple"} }
  \cup { N("ClassDef", v, <<e>>) : v \in {"plain", "bases", "keywords", "decorator", "method"} }
  \cup { N("Match", "", <<e>>), N("TypeAlias", "", <<e>>) }
D1Stmt == StmtOver(A)
D2Stmt == UNION { { N("Assign", "single", <<e>>), N("ExprStmt", "", <<e>>), N("If", "plain", <<e>>), N("FunctionDef", "returns_expr", <<e>>),
                    N("AugAssign", "Add", <<e>>), N("Assert", "msg", <<e>>) } : e \in D1Expr }

Unsupported == {"NamedExpr", "Match", "TypeAlias"}

ExprPrograms == D1Expr \cup D2Expr \cup ShapeExprs
StmtPrograms == D1Stmt \cup D2Stmt \cup SigStmts
ASSUME /\ ndJsonSerialize(IOEnv.OUT_EXPR, SetToSeq(ExprPrograms))
       /\ ndJsonSerialize(IOEnv.OUT_STMT, SetToSeq(StmtPrograms))
       /\ PrintT(<<"programs", Cardinality(ExprPrograms), Cardinality(StmtPrograms)>>)
VARIABLE x
Init == x = 0
Next == UNCHANGED x
=============================================================================
