SPECIFICATION Spec
CONSTANTS
  Rules <- RPlus
  NT = {"S","P","B","O"}
  Start = "S"
  Input <- InPlusPrefix
  PrefixMode = TRUE
  AdmitByCore = FALSE
  CatchUp = "guarded"
  AnyOrder = FALSE
  MaxSize = 40
INVARIANT Bounded
PROPERTY Terminates
CHECK_DEADLOCK FALSE
