---------------------------- MODULE SpecPrintBodies ----------------------------
(* constant evaluation: writes the exhaustive set of rule bodies of SpecPrint.tla as ndjson (IOEnv.OUT, IOEnv.DEPTH) *)
EXTENDS SpecPrint
ASSUME WriteBodies
BInit == i = 1 /\ bad = <<>>
BNext == UNCHANGED vars
=============================================================================
