SPECIFICATION Spec
CONSTANTS
  D = 7
  Streams = 2
CONSTRAINT Emit
CHECK_DEADLOCK FALSE
