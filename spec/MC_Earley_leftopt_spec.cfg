SPECIFICATION Spec
CONSTANTS
  Rules <- RLeftOpt
  NT = {"S","E","O"}
  Start = "S"
  Input <- InLeftOpt
  PrefixMode = FALSE
  AdmitByCore = TRUE
  CatchUp = "always"
  AnyOrder = TRUE
  MaxSize = 40
INVARIANT Bounded
INVARIANT AcceptsAtEnd
PROPERTY Terminates
CHECK_DEADLOCK FALSE
