------------------------------- MODULE SpecPrint -------------------------------
(***************************************************************************)
(* Printing a grammar and reading it back (format_as_spec / repr(grammar)   *)
(* -> spec reader).  The printer has to satisfy one relation: re-reading    *)
(* Print(node) yields a node that is the same expression up to              *)
(* associativity - grouping, repetition operators and their bounds (open    *)
(* bounds stay open), literal values and kinds, party annotations.          *)
(*                                                                          *)
(* Part 1: the space of rule bodies, enumerated exhaustively to a depth     *)
(*   (every operator over every operand shape: postfix operators over       *)
(*   sequences, alternatives, other postfix operators; nested alternatives) *)
(* Part 2: Norm / Same - structural equality modulo associativity and       *)
(*   singleton groups, evaluated by TLC on recorded (before, after) pairs.  *)
(***************************************************************************)
EXTENDS Naturals, Sequences, FiniteSets, TLC, Json, IOUtils, SequencesExt

Inf == 999999
Nd(k, xs, s, lo, hi, kind, v) == [k |-> k, xs |-> xs, s |-> s, lo |-> lo, hi |-> hi, ref |-> "", kind |-> kind, v |-> v, items |-> <<>>, snd |-> "", rcp |-> ""]
Leaves == { Nd("nt", <<>>, "<a>", 0, 0, "", <<>>), Nd("nt", <<>>, "<b>", 0, 0, "", <<>>), Nd("lit", <<>>, "", 0, 0, "text", <<120>>) }
Bounds == { <<0, Inf>>, <<1, Inf>>, <<0, 1>>, <<2, 2>>, <<1, 3>>, <<2, Inf>> }
RECURSIVE Bodies(_)
Bodies(d) == IF d = 0 THEN Leaves
             ELSE LET B == Bodies(d - 1) IN
                  B \cup { Nd("cat", <<x, y>>, "", 0, 0, "", <<>>) : x \in B, y \in B }
                    \cup { Nd("alt", <<x, y>>, "", 0, 0, "", <<>>) : x \in B, y \in B }
                    \cup { Nd("rep", <<x>>, "", b[1], b[2], "", <<>>) : x \in B, b \in Bounds }
WriteBodies == ndJsonSerialize(IOEnv.OUT, SetToSeq(Bodies(atoi(IOEnv.DEPTH)))) /\ PrintT(<<"bodies", Cardinality(Bodies(atoi(IOEnv.DEPTH)))>>)

(* Norm: flatten nested sequences / alternatives, drop singleton groups *)
RECURSIVE Norm(_)
FlatK(k, xs) == FoldLeft(LAMBDA acc, x : IF x.k = k THEN acc \o x.xs ELSE Append(acc, x), <<>>, xs)
Norm(n) ==
  IF n.k \in {"cat", "alt"} THEN
     LET kids == FlatK(n.k, [i \in 1..Len(n.xs) |-> Norm(n.xs[i])]) IN
     IF Len(kids) = 1 THEN kids[1] ELSE [n EXCEPT !.xs = kids]
  ELSE IF n.k = "rep" THEN [n EXCEPT !.xs = <<Norm(n.xs[1])>>]
  ELSE n
Same(a, b) == Norm(a) = Norm(b)

(* trace part: {"ev":"P","tid":t,"idx":i,"before":node,"after":node} *)
Log == ndJsonDeserialize(IOEnv.TRACE_FILE)
VARIABLES i, bad
vars == <<i, bad>>
Init == i = 1 /\ bad = <<>>
Step == /\ i <= Len(Log) /\ i' = i + 1
        /\ bad' = IF Same(Log[i].before, Log[i].after) THEN bad ELSE Append(bad, [tid |-> Log[i].tid, idx |-> Log[i].idx])
Spec == Init /\ [][Step]_vars
Final == i <= Len(Log) \/ (PrintT(<<"BAD", ToJson(bad)>>) /\ PrintT(<<"CONSUMED", i - 1, 0>>))
=============================================================================
