INIT Init
NEXT Step
CHECK_DEADLOCK FALSE
