------------------------------- MODULE Arrivals -------------------------------
(* Arrival schedules for the protocol run (environment side of ProtocolRun.tla): before each of the first D     *)
(* scheduling points of the loop (every sleep and every access to the shared receive buffer) the environment      *)
(* decides "no arrival" (0) or "the next unit of stream s arrives" (s in 1..Streams).  TLC enumerates all of them; *)
(* the harness drives one deterministic run of the real loop per schedule (spec -> code).                         *)
EXTENDS Naturals, Sequences, TLC, Json
CONSTANTS D, Streams
VARIABLE sched
Init == sched = <<>>
Next == Len(sched) < D /\ \E c \in 0..Streams : sched' = Append(sched, c)
Spec == Init /\ [][Next]_sched
Emit == Len(sched) < D \/ PrintT(<<"SCHED", ToJson(sched)>>)
=============================================================================
