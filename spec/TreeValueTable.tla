--------------------------- MODULE TreeValueTable ---------------------------
(* constant evaluation: writes the C09 case table (leaf sequence, shape, reference answers) as ndjson *)
EXTENDS MC_TreeValue
ASSUME WriteTable
TInit == leaves = <<>> /\ shape = Leaf(1) /\ objs = <<>> /\ last = [view |-> "none", res |-> Open]
TNext == UNCHANGED vars
=============================================================================
