SPECIFICATION Spec
CONSTANTS
  Trees <- T
  NH = 2
  NR = 1
  SatH <- mcSatH
  SatR <- mcSatR
  KeyOf <- KeyId
  EditTo <- Edits
  InvalidateOnEdit = TRUE
  IoMode = FALSE
  Record = TRUE
  MaxOps = 8
INVARIANT EmittedSat
INVARIANT Complete
INVARIANT Coherent
INVARIANT EmitOnce
PROPERTY FirstSightEmits
CHECK_DEADLOCK FALSE
CONSTRAINT EmitHist
