SPECIFICATION Spec
CONSTANTS
  MaxNodes <- mcMaxNodes
  MaxOps <- mcMaxOps
  Syms <- mcSyms
  Senders <- mcSenders
  SliceSym = "<*slice*>"
  SliceAsView = TRUE
  Record = FALSE
  Seeds <- mcSeeds
INVARIANT Inv_Size
INVARIANT Inv_Hash
INVARIANT Inv_Parent
PROPERTY PureOps
CHECK_DEADLOCK FALSE
