SPECIFICATION Spec
CONSTANTS
  G <- mcG
  Depth = 3
  MaxOps = 3
  SameSymbolOnly = TRUE
  Record = TRUE
INVARIANT Inv_Valid
CONSTRAINT Small
CHECK_DEADLOCK FALSE
CONSTRAINT Emit
