---------------------------- MODULE Trace_Lockstep ----------------------------
(* C17: two runs of the same configuration (spec, settings, random seed, hash seed) in fresh processes must be    *)
(* the same behaviour.  Each run records its event stream (operator results, evaluations, emitted solutions,       *)
(* parse results; payloads as digests); the harness aligns the two streams position by position and this trace     *)
(* specification walks them in lock-step: at the first position where they differ the configuration is reported    *)
(* with the kind of event that diverged (the source of nondeterminism), later positions of that configuration      *)
(* are ignored.  ndjson (IOEnv.TRACE_FILE): {"cfg":c,"i":k,"ak":kind,"ad":digest,"bk":kind,"bd":digest}           *)
(* (kind "-" = the stream has ended).                                                                              *)
EXTENDS Naturals, Sequences, FiniteSets, TLC, Json, IOUtils

Log == ndJsonDeserialize(IOEnv.TRACE_FILE)
VARIABLES i, diverged, bad, n
vars == <<i, diverged, bad, n>>
Init == i = 1 /\ diverged = {} /\ bad = <<>> /\ n = 0

Step == LET e == Log[i] IN
  /\ i <= Len(Log) /\ i' = i + 1 /\ n' = n + 1
  /\ IF e.cfg \notin diverged /\ (e.ak # e.bk \/ e.ad # e.bd)
       THEN /\ diverged' = diverged \cup {e.cfg}
            /\ bad' = Append(bad, [cfg |-> e.cfg, at |-> e.i, a |-> e.ak, b |-> e.bk])
       ELSE UNCHANGED <<diverged, bad>>
Spec == Init /\ [][Step]_vars
Final == i <= Len(Log) \/ (PrintT(<<"BAD", ToJson(bad)>>) /\ PrintT(<<"CONSUMED", i - 1, n>>))
=============================================================================
