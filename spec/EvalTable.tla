------------------------------ MODULE EvalTable ------------------------------
(* Constant evaluation: every configuration (h, r, hs, rs) of the acceptance    *)
(* decision with the verdict the specification demands, written as ndjson for   *)
(* the spec -> code replay (harness/checks/c03.py).                             *)
EXTENDS Naturals, Sequences, FiniteSets, TLC, Json, IOUtils, SequencesExt, EvaluatorOps
MaxH == atoi(IOEnv.MAXH)
MaxR == atoi(IOEnv.MAXR)
Cases == { [h |-> h, r |-> r, hs |-> hs, rs |-> rs,
            accept |-> Accept(AllSatCounts(h, r, hs, rs), 1, {}),
            again  |-> Accept(AllSatCounts(h, r, hs, rs), 1, {1})] :
             h \in 0..MaxH, r \in 0..MaxR, hs \in 0..MaxH, rs \in 0..MaxR }
Good == { c \in Cases : c.hs <= c.h /\ c.rs <= c.r /\ c.h + c.r > 0 }
ASSUME ndJsonSerialize(IOEnv.OUT, SetToSeq(Good))
ASSUME PrintT(<<"cases", Cardinality(Good)>>)
VARIABLE x
Init == x = 0
Next == UNCHANGED x
=============================================================================
