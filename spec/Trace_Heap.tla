------------------------------ MODULE Trace_Heap ------------------------------
(* Trace specification for heaps recorded from real runs (code -> spec, C10).      *)
(* ndjson events (IOEnv.TRACE_FILE):                                               *)
(*  {"ev":"Snap","tid":t,"idx":i,"nodes":[{"sym":..,"ch":[ids],"parent":id,       *)
(*    "sizeC":n,"hashOK":b,"eqOK":b}..], "frozen":[{"name":..,"struct":..}..]}     *)
(* nodes: every tree node reachable from the observed roots, ids by object         *)
(* identity; hashOK: the node's hash() equals the hash of a rebuilt copy;          *)
(* frozen: trees the caller holds (emitted solutions, operator inputs) with their  *)
(* structure as a string - a name must keep its structure for the rest of the run. *)
EXTENDS Naturals, Sequences, FiniteSets, TLC, Json, IOUtils, TreeHeapOps

Log == ndJsonDeserialize(IOEnv.TRACE_FILE)
SliceSym == "<*slice*>"

VARIABLES i, tid, held, bad, nnodes
vars == <<i, tid, held, bad, nnodes>>

Init == i = 1 /\ tid = 0 /\ held = <<>> /\ bad = <<>> /\ nnodes = 0

Step == LET e == Log[i]
            h == e.nodes
            A == 1..Len(h)
            B(c) == [tid |-> e.tid, idx |-> e.idx, clause |-> c]
            base == IF e.tid = tid THEN held ELSE <<>>
            changed == {k \in 1..Len(e.frozen) : e.frozen[k].name \in DOMAIN base /\ base[e.frozen[k].name] # e.frozen[k].struct}
            fails ==
              (IF ~SizeOK(h, A, SliceSym) THEN <<B("size")>> ELSE <<>>) \o
              (IF ~ParentOK(h, A, SliceSym) THEN <<B("parent-link")>> ELSE <<>>) \o
              (IF \E n \in A : ~h[n].hashOK THEN <<B("hash")>> ELSE <<>>) \o
              (IF \E n \in A : ~h[n].eqOK THEN <<B("equality")>> ELSE <<>>) \o
              (IF changed # {} THEN <<B("held-tree-changed")>> ELSE <<>>)
            add == [k \in {e.frozen[j].name : j \in 1..Len(e.frozen)} \ DOMAIN base |->
                      (CHOOSE j \in 1..Len(e.frozen) : e.frozen[j].name = k) ]
        IN
  /\ i <= Len(Log)
  /\ i' = i + 1
  /\ tid' = e.tid
  /\ bad' = bad \o fails
  /\ held' = base @@ [k \in DOMAIN add |-> e.frozen[add[k]].struct]
  /\ nnodes' = nnodes + Len(h)

Spec == Init /\ [][Step]_vars
Final == i <= Len(Log) \/ (PrintT(<<"BAD", ToJson(bad)>>) /\ PrintT(<<"CONSUMED", i - 1, nnodes>>))
=============================================================================
