--------------------------------- MODULE Lang ---------------------------------
(***************************************************************************)
(* The derivation machine: leftmost expansion of a grammar (IR of FanIR),   *)
(* explored exhaustively by TLC it yields *every* derivation tree with at   *)
(* most MaxUnits characters (bytes, bits) - an enumerator of the language that     *)
(* shares nothing with Fandango's generator or parser.                      *)
(*                                                                          *)
(* State: a stack of open frames [sym, kids, todo]; todo = grammar nodes    *)
(* still to be expanded for this tree node.  One action per kind of the     *)
(* next grammar node.  Several grammars are explored in one run (Init picks *)
(* one of Gs).  Bounds never silently disable a step on the way to a word   *)
(* within the length bound: the repetition cap is MaxUnits + 1, the bound   *)
(* is on the length of the word (not on leaves), and hitting the node bound is reported    *)
(* (TRUNC) so that the harness does not use that grammar as a membership    *)
(* oracle.                                                                  *)
(***************************************************************************)
EXTENDS Naturals, Sequences, FiniteSets, TLC, Json, IOUtils, SequencesExt

Gs == JsonDeserialize(IOEnv.GRAMMARS)      \* sequence of [gid, start, rules]
MaxUnits == atoi(IOEnv.MAXUNITS)     \* bound on the length of the word (characters / bytes / bits)
MaxNodes  == atoi(IOEnv.MAXNODES)
Inf == 999999
Cap == MaxUnits + 1

VARIABLES gi, stack, units, nodes, done
vars == <<gi, stack, units, nodes, done>>

G == Gs[gi]
Leaf(kind, v) == [sym |-> "", term |-> TRUE, kind |-> kind, val |-> v, ch |-> <<>>, helper |-> FALSE]
Inner(s, kids) == [sym |-> s, term |-> FALSE, kind |-> "", val |-> <<>>, ch |-> kids, helper |-> FALSE]

(* all strings of length <= MaxReLen matched by a sequence of quantified classes *)
RECURSIVE Strings(_,_)
Strings(set, n) == IF n = 0 THEN {<<>>} ELSE { Append(s, c) : s \in Strings(set, n - 1), c \in set }
ItemLang(it, m) == UNION { Strings(ToSet(it.set), n) : n \in it.lo..(IF it.hi > m THEN m ELSE it.hi) }
RECURSIVE ReLang(_,_)
ReLang(items, m) == IF items = <<>> THEN {<<>>}
                    ELSE { w \in { a \o b : a \in ItemLang(Head(items), m), b \in ReLang(Tail(items), m) } : Len(w) <= m }
\* every word of the regex that still fits, and one longer word if there is any (it triggers the length bound)
\* leading zero-width assertions (see FanIR.tla)
IsWordCp(c) == c \in 48..57 \/ c \in 65..90 \/ c \in 97..122 \/ c = 95 \/ c \in {170, 181, 186} \/ (c >= 192 /\ c <= 591 /\ c \notin {215, 247})
IsAssertion(it) == it.hi = 0 /\ it.lo > 0
AssertionHolds(it, val) ==
  CASE it.lo = 1 -> FALSE
    [] it.lo = 2 -> val # <<>> /\ IsWordCp(val[1])
    [] it.lo = 3 -> val = <<>> \/ ~IsWordCp(val[1])
    [] OTHER -> TRUE
ReWords(items, m) == IF items # <<>> /\ IsAssertion(items[1])
                     THEN { w \in ReLang(Tail(items), m) : AssertionHolds(items[1], w) }
                     ELSE ReLang(items, m)

Init == /\ gi \in 1..Len(Gs)
        /\ stack = << [sym |-> Gs[gi].start, kids |-> <<>>, todo |-> << Gs[gi].rules[Gs[gi].start] >>] >>
        /\ units = 0 /\ nodes = 1 /\ done = <<>>

Top == stack[Len(stack)]
SetTop(f) == [stack EXCEPT ![Len(stack)] = f]
Rest(f) == Tail(f.todo)
Copies(x, k) == [j \in 1..k |-> x]
Trunc(why) == /\ (IF why = "length" THEN TRUE ELSE PrintT(<<"TRUNC", G.gid, why>>))
              /\ stack' = <<>> /\ UNCHANGED <<gi, units, nodes, done>>

EmitLeaf(f, kind, v) ==
  IF units + Len(v) > MaxUnits THEN Trunc("length")        \* a longer word: beyond the bound, as intended
  ELSE IF nodes >= MaxNodes THEN Trunc("nodes")
  ELSE /\ stack' = SetTop([f EXCEPT !.kids = Append(@, Leaf(kind, v)), !.todo = Rest(f)])
       /\ units' = units + Len(v)
       /\ nodes' = nodes + 1 /\ UNCHANGED <<gi, done>>

(* the number spelled by the last finished <ref> in the frames' kids (document order), for computed repetitions *)
RECURSIVE YieldOf(_)
YieldOf(t) == IF t.term THEN t.val ELSE FoldLeft(LAMBDA acc, c : acc \o YieldOf(c), <<>>, t.ch)
RECURSIVE LastOf(_,_)        \* last occurrence of symbol ref in a sequence of finished trees, searched right to left, deep
LastIn(t, ref) == IF t.term THEN <<>>
                  ELSE LET below == LastOf(t.ch, ref) IN
                       IF below # <<>> THEN below ELSE IF t.sym = ref THEN <<t>> ELSE <<>>
LastOf(ts, ref) == IF ts = <<>> THEN <<>>
                   ELSE LET r == LastIn(ts[Len(ts)], ref) IN IF r # <<>> THEN r ELSE LastOf(SubSeq(ts, 1, Len(ts) - 1), ref)
RECURSIVE LastInStack(_,_)
LastInStack(k, ref) == IF k = 0 THEN <<>>
                       ELSE LET r == LastOf(stack[k].kids, ref) IN IF r # <<>> THEN r ELSE LastInStack(k - 1, ref)
IsDigitsL(v) == v # <<>> /\ \A i \in 1..Len(v) : v[i] \in 48..57
NatOfL(v) == FoldLeft(LAMBDA acc, x : acc * 10 + (x - 48), 0, v)

Step ==
  /\ done = <<>>
  /\ Len(stack) > 0
  /\ LET f == Top IN
     IF f.todo = <<>> THEN
        IF Len(stack) = 1
        THEN /\ done' = << Inner(f.sym, f.kids) >> /\ stack' = <<>> /\ UNCHANGED <<gi, units, nodes>>
        ELSE LET p == stack[Len(stack) - 1]
                 p2 == [p EXCEPT !.kids = Append(@, Inner(f.sym, f.kids))]
             IN /\ stack' = Append(SubSeq(stack, 1, Len(stack) - 2), p2)
                /\ UNCHANGED <<gi, units, nodes, done>>
     ELSE LET n == Head(f.todo) IN
        CASE n.k = "alt" -> \E j \in 1..Len(n.xs) :
                 /\ stack' = SetTop([f EXCEPT !.todo = <<n.xs[j]>> \o Rest(f)])
                 /\ UNCHANGED <<gi, units, nodes, done>>
          [] n.k = "cat" -> /\ stack' = SetTop([f EXCEPT !.todo = n.xs \o Rest(f)])
                            /\ UNCHANGED <<gi, units, nodes, done>>
          [] n.k = "rep" ->
                 IF n.ref # "" THEN
                    LET r == LastInStack(Len(stack), n.ref)
                        want == IF r # <<>> /\ IsDigitsL(YieldOf(r[1])) THEN NatOfL(YieldOf(r[1])) ELSE 0
                    IN /\ r # <<>> /\ want <= Cap + 3
                       /\ stack' = SetTop([f EXCEPT !.todo = Copies(n.xs[1], want) \o Rest(f)])
                       /\ UNCHANGED <<gi, units, nodes, done>>
                 ELSE \E c \in n.lo .. (IF n.hi > Cap THEN Cap ELSE n.hi) :
                    /\ stack' = SetTop([f EXCEPT !.todo = Copies(n.xs[1], c) \o Rest(f)])
                    /\ UNCHANGED <<gi, units, nodes, done>>
          [] n.k = "nt" -> IF nodes >= MaxNodes THEN Trunc("nodes")
                           ELSE /\ stack' = Append(SetTop([f EXCEPT !.todo = Rest(f)]),
                                                   [sym |-> n.s, kids |-> <<>>, todo |-> << G.rules[n.s] >>])
                                /\ nodes' = nodes + 1 /\ UNCHANGED <<gi, units, done>>
          [] n.k = "lit" -> EmitLeaf(f, n.kind, n.v)
          [] n.k = "re"  -> \E w \in ReWords(n.items, MaxUnits - units) : EmitLeaf(f, n.kind, w)
Next == Step
Spec == Init /\ [][Next]_vars
Emit == done = <<>> \/ PrintT(<<"TREE", G.gid, ToJson(done[1])>>)
=============================================================================
