-------------------------------- MODULE Trace_Gen --------------------------------
(* Trace specification for generator-defined fields (code -> spec, C16).                          *)
(* ndjson events (IOEnv.TRACE_FILE):                                                              *)
(*  {"ev":"C","tid":t,"calls":[{"sym":..,"args":[[..]..],"ret":[..]}..]}  generator calls logged   *)
(*      by the generator functions themselves (defined in the spec text), cumulative per run       *)
(*  {"ev":"F","tid":t,"idx":i,"fields":[{"sym":..,"text":[..],"args":[[..]..]}..]}                 *)
(*      the generator-defined fields of a tree that was emitted / produced by an operator,         *)
(*      with the argument texts recorded with the node (its sources)                               *)
(* Clauses: the field's text is a value the generator really returned for exactly these            *)
(* arguments, and - for the library generators - it equals G(args) as defined here.                *)
EXTENDS Naturals, Sequences, FiniteSets, TLC, Json, IOUtils, SequencesExt

Log == ndJsonDeserialize(IOEnv.TRACE_FILE)
VARIABLES i, tid, calls, bad, nf
vars == <<i, tid, calls, bad, nf>>
Init == i = 1 /\ tid = 0 /\ calls = {} /\ bad = <<>> /\ nf = 0

IsDigitsG(v) == v # <<>> /\ \A k \in 1..Len(v) : v[k] \in 48..57
NatG(v) == FoldLeft(LAMBDA acc, x : acc * 10 + (x - 48), 0, v)
RECURSIVE DecG(_)
DecG(n) == IF n < 10 THEN <<48 + n>> ELSE DecG(n \div 10) \o <<48 + (n % 10)>>
Tags == { <<97, 97>>, <<98>>, <<99, 99, 99>> }            \* "aa", "b", "ccc"

(* the generator library, as defined in the spec text the harness renders *)
LibOK(f) ==
  CASE f.sym = "<chk>" -> Len(f.args) = 2 /\ IsDigitsG(f.args[1]) /\ IsDigitsG(f.args[2])
                          /\ f.text = DecG((NatG(f.args[1]) + NatG(f.args[2])) % 10)
    [] f.sym = "<len>" -> Len(f.args) = 1 /\ f.text = DecG(Len(f.args[1]))
    [] f.sym = "<tag>" -> f.args = <<>> /\ f.text \in Tags
    [] f.sym = "<wrap>" -> Len(f.args) = 1 /\ f.text = <<91>> \o f.args[1] \o <<93>>     \* "[" inner "]"
    [] OTHER -> TRUE

Step == LET e == Log[i] IN
  /\ i <= Len(Log) /\ i' = i + 1 /\ tid' = e.tid
  /\ IF e.ev = "C"
       THEN /\ calls' = (IF e.tid = tid THEN calls ELSE {}) \cup ToSet(e.calls)
            /\ UNCHANGED <<bad, nf>>
       ELSE LET known == IF e.tid = tid THEN calls ELSE {}
                Bad(c, k) == [tid |-> e.tid, idx |-> e.idx, clause |-> c, k |-> k]
                fails == FoldLeft(LAMBDA acc, k :
                            LET f == e.fields[k] IN
                            acc \o (IF [sym |-> f.sym, args |-> f.args, ret |-> f.text] \notin known
                                    THEN <<Bad("text-is-not-a-value-the-generator-returned-for-the-recorded-arguments", k)>> ELSE <<>>)
                                \o (IF ~LibOK(f) THEN <<Bad("text-differs-from-G-of-recorded-arguments", k)>> ELSE <<>>),
                            <<>>, [k \in 1..Len(e.fields) |-> k])
            IN /\ bad' = bad \o fails /\ nf' = nf + Len(e.fields) /\ calls' = known
Spec == Init /\ [][Step]_vars
Final == i <= Len(Log) \/ (PrintT(<<"BAD", ToJson(bad)>>) /\ PrintT(<<"CONSUMED", i - 1, nf>>))
=============================================================================
