------------------------------ MODULE MC_Earley ------------------------------
EXTENDS Earley
\* <start> ::= <a>* "c" ; <a> ::= "x"?        (star compiled to  P -> eps | A P)
RStar == { [lhs |-> "S", rhs |-> <<"P", "c">>], [lhs |-> "P", rhs |-> <<>>], [lhs |-> "P", rhs |-> <<"A", "P">>],
           [lhs |-> "A", rhs |-> <<>>], [lhs |-> "A", rhs |-> <<"x">>] }
InStar == << "x", "c" >>
\* <start> ::= "a" (<o> "c")+ ; <o> ::= "b"?   (plus compiled to  P -> B | B P)
RPlus == { [lhs |-> "S", rhs |-> <<"a", "P">>], [lhs |-> "P", rhs |-> <<"B">>], [lhs |-> "P", rhs |-> <<"B", "P">>],
           [lhs |-> "B", rhs |-> <<"O", "c">>], [lhs |-> "O", rhs |-> <<>>], [lhs |-> "O", rhs |-> <<"b">>] }
InPlusFull == << "a", "c", "b", "c" >>
InPlusPrefix == << "a" >>
\* left recursion with a nullable alternative: <l> ::= <l> <l> | "a" | ""
RLeft == { [lhs |-> "S", rhs |-> <<"L">>], [lhs |-> "L", rhs |-> <<"L", "L">>], [lhs |-> "L", rhs |-> <<"a">>], [lhs |-> "L", rhs |-> <<>>] }
InLeft == << "a" >>
\* a nullable symbol expected a second time after it has been completed: <start> ::= <o> <x> ; <x> ::= <o> "c" ; <o> ::= "y"?
RTwice == { [lhs |-> "S", rhs |-> <<"O", "X">>], [lhs |-> "X", rhs |-> <<"O", "c">>], [lhs |-> "O", rhs |-> <<>>], [lhs |-> "O", rhs |-> <<"y">>] }
InTwice == << "c" >>
\* left recursion followed by a nullable symbol: <start> ::= <e> "." ; <e> ::= <e> <o> | "x" ; <o> ::= "y"?
RLeftOpt == { [lhs |-> "S", rhs |-> <<"E", ".">>], [lhs |-> "E", rhs |-> <<"E", "O">>], [lhs |-> "E", rhs |-> <<"x">>],
              [lhs |-> "O", rhs |-> <<>>], [lhs |-> "O", rhs |-> <<"y">>] }
InLeftOpt == << "x", "y", "." >>
=============================================================================
