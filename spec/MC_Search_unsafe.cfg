SPECIFICATION Spec
CONSTANTS
  G <- mcG
  Depth = 3
  MaxOps = 0
  SameSymbolOnly = FALSE
  Record = FALSE
INVARIANT Inv_Valid
CONSTRAINT Small
CHECK_DEADLOCK FALSE
