-------------------------------- MODULE Globals --------------------------------
(***************************************************************************)
(* Process-wide state shared by all spec objects of one process, as explicit *)
(* variables: the repetition cap (nodes.MAX_REPETITIONS, read by every       *)
(* open-ended repetition of every grammar; the adaptive tuner of a run       *)
(* raises it), and the current IO environment key (the context variable      *)
(* through which FandangoIO.instance() is resolved; constructing a spec with *)
(* parties overwrites it).  Instances A and B; public operations: construct, *)
(* fuzz (short / long: a long run makes the tuner raise the cap), parse.     *)
(*                                                                           *)
(* Two more pieces of process-wide state: the default operator objects (one  *)
(* SimpleMutation / crossover object, created when the module is imported,   *)
(* serves every search that does not pass its own) and whatever the spec     *)
(* reader keeps between calls (files named in include()).                    *)
(* OpState   = "stateless" the shared operator object keeps nothing          *)
(*             "ratchet"   it keeps a budget that follows the individuals    *)
(* IncScope  = "instance"  an include name is resolved for each spec object  *)
(*             "process"   the first resolution of a name serves the process *)
(* CapScope  = "leak"   the cap stays as the last run left it (pinned commit)*)
(*             "scoped" a run restores the cap when it ends                  *)
(* Property C18 (NonInterference): what B observes - here the cap in force   *)
(* when B operates and the environment B's run resolves - does not depend    *)
(* on what happened on A before.                                             *)
(***************************************************************************)
EXTENDS Naturals, Sequences, TLC, Json

CONSTANTS CapScope, OpState, IncScope, MaxOps, Record, DefaultCap, RaisedCap
VARIABLES capG, envKey, made, hist, obsB, opG, incG, gram
vars == <<capG, envKey, made, hist, obsB, opG, incG, gram>>

Init == /\ capG = DefaultCap /\ envKey = "none" /\ made = {} /\ hist = <<>> /\ obsB = <<>>
        /\ opG = DefaultCap          \* budget kept by the shared default operator object
        /\ incG = "none"             \* whose file the shared include name is bound to
        /\ gram = [x \in {"A", "B"} |-> "none"]   \* whose included rules instance x was built from
Obs == [cap |-> capG, env |-> envKey, op |-> opG, gram |-> gram["B"]]

Log(op, x, long) == IF Record THEN Len(hist) < MaxOps /\ hist' = Append(hist, [op |-> op, x |-> x, long |-> long])
                    ELSE Len(hist) < MaxOps /\ hist' = Append(hist, [op |-> op, x |-> x, long |-> long])

Construct(x) == /\ x \notin made /\ made' = made \cup {x}
                /\ envKey' = x                      \* the newest spec becomes the current environment
                /\ incG' = IF IncScope = "process" /\ incG # "none" THEN incG ELSE x
                /\ gram' = [gram EXCEPT ![x] = incG']
                /\ UNCHANGED <<capG, obsB, opG>> /\ Log("make", x, FALSE)
Fuzz(x, long) == /\ x \in made
                 /\ capG' = IF long /\ CapScope = "leak" THEN RaisedCap ELSE capG     \* the tuner raised it during the run
                 /\ opG' = IF long /\ OpState = "ratchet" THEN RaisedCap ELSE opG       \* the operator saw large individuals
                 /\ obsB' = IF x = "B" THEN Append(obsB, Obs) ELSE obsB
                 /\ UNCHANGED <<envKey, made, incG, gram>> /\ Log("fuzz", x, long)
Parse(x) == /\ x \in made
            /\ obsB' = IF x = "B" THEN Append(obsB, Obs) ELSE obsB
            /\ UNCHANGED <<capG, envKey, made, opG, incG, gram>> /\ Log("parse", x, FALSE)

Next == \E x \in {"A", "B"} : Construct(x) \/ Parse(x) \/ \E long \in BOOLEAN : Fuzz(x, long)
Spec == Init /\ [][Next]_vars

(* B always operates under the default cap: nothing another instance did is visible to it *)
NonInterference == \A k \in 1..Len(obsB) : obsB[k].cap = DefaultCap /\ obsB[k].op = DefaultCap /\ obsB[k].gram = "B"
(* histories that end with an operation on B (for replay): activity on A, then B *)
EndsOnB == hist # <<>> /\ hist[Len(hist)].x = "B" /\ hist[Len(hist)].op # "make"
Emit == ~Record \/ ~EndsOnB \/ PrintT(<<"HIST", ToJson(hist)>>)
=============================================================================
