-------------------------------- MODULE Globals --------------------------------
(***************************************************************************)
(* Process-wide state shared by all spec objects of one process, as explicit *)
(* variables: the repetition cap (nodes.MAX_REPETITIONS, read by every       *)
(* open-ended repetition of every grammar; the adaptive tuner of a run       *)
(* raises it), and the current IO environment key (the context variable      *)
(* through which FandangoIO.instance() is resolved; constructing a spec with *)
(* parties overwrites it).  Instances A and B; public operations: construct, *)
(* fuzz (short / long: a long run makes the tuner raise the cap), parse.     *)
(*                                                                           *)
(* CapScope  = "leak"   the cap stays as the last run left it (pinned commit)*)
(*             "scoped" a run restores the cap when it ends                  *)
(* Property C18 (NonInterference): what B observes - here the cap in force   *)
(* when B operates and the environment B's run resolves - does not depend    *)
(* on what happened on A before.                                             *)
(***************************************************************************)
EXTENDS Naturals, Sequences, TLC, Json

CONSTANTS CapScope, MaxOps, Record, DefaultCap, RaisedCap
VARIABLES capG, envKey, made, hist, obsB
vars == <<capG, envKey, made, hist, obsB>>

Init == capG = DefaultCap /\ envKey = "none" /\ made = {} /\ hist = <<>> /\ obsB = <<>>

Log(op, x, long) == IF Record THEN Len(hist) < MaxOps /\ hist' = Append(hist, [op |-> op, x |-> x, long |-> long])
                    ELSE Len(hist) < MaxOps /\ hist' = Append(hist, [op |-> op, x |-> x, long |-> long])

Construct(x) == /\ x \notin made /\ made' = made \cup {x}
                /\ envKey' = x                      \* the newest spec becomes the current environment
                /\ UNCHANGED <<capG, obsB>> /\ Log("make", x, FALSE)
Fuzz(x, long) == /\ x \in made
                 /\ capG' = IF long /\ CapScope = "leak" THEN RaisedCap ELSE capG     \* the tuner raised it during the run
                 /\ obsB' = IF x = "B" THEN Append(obsB, [cap |-> capG, env |-> envKey]) ELSE obsB
                 /\ UNCHANGED <<envKey, made>> /\ Log("fuzz", x, long)
Parse(x) == /\ x \in made
            /\ obsB' = IF x = "B" THEN Append(obsB, [cap |-> capG, env |-> envKey]) ELSE obsB
            /\ UNCHANGED <<capG, envKey, made>> /\ Log("parse", x, FALSE)

Next == \E x \in {"A", "B"} : Construct(x) \/ Parse(x) \/ \E long \in BOOLEAN : Fuzz(x, long)
Spec == Init /\ [][Next]_vars

(* B always operates under the default cap: nothing another instance did is visible to it *)
NonInterference == \A k \in 1..Len(obsB) : obsB[k].cap = DefaultCap
(* histories that end with an operation on B (for replay): activity on A, then B *)
EndsOnB == hist # <<>> /\ hist[Len(hist)].x = "B" /\ hist[Len(hist)].op # "make"
Emit == ~Record \/ ~EndsOnB \/ PrintT(<<"HIST", ToJson(hist)>>)
=============================================================================
