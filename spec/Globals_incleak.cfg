SPECIFICATION Spec
CONSTANTS
  CapScope = "scoped"
  OpState = "stateless"
  IncScope = "process"
  MaxOps = 5
  Record = FALSE
  DefaultCap = 20
  RaisedCap = 1000
INVARIANT NonInterference
CHECK_DEADLOCK FALSE
