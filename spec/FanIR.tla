-------------------------------- MODULE FanIR --------------------------------
(***************************************************************************)
(* The shared vocabulary: grammars, derivation trees and what it means for  *)
(* a tree to be a derivation of a grammar.  Constant-level operators only;  *)
(* used by the trace specifications that judge recorded trees (Trace_Tree), *)
(* by the derivation machine (Lang) and by the search model.                *)
(*                                                                          *)
(* Grammar IR    G : [start, rules], rules : symbol -> node                 *)
(*   node = [k, xs, s, lo, hi, ref, kind, v, items]   (uniform fields)      *)
(*     k = "alt"  xs alternatives                                           *)
(*     k = "cat"  xs parts                                                  *)
(*     k = "rep"  xs = <<body>>, lo..hi iterations (hi = Inf: open-ended);  *)
(*                ref # "" : computed repetition {int(<ref>)} - the count   *)
(*                equals the number spelled by the nearest preceding <ref>  *)
(*     k = "nt"   s the nonterminal                                         *)
(*     k = "lit"  literal leaf of kind "text" | "bytes" | "bit", value v    *)
(*     k = "re"   regex leaf of kind "text" | "bytes"; items = sequence of  *)
(*                [set, lo, hi]: a character class with a quantifier        *)
(* Tree IR       t = [sym, term, kind, val, ch]  (+ snd, rcp, ro ignored)   *)
(*   text values are code points, bytes 0..255, a bit leaf has val = <<b>>  *)
(***************************************************************************)
EXTENDS Naturals, Sequences, FiniteSets, SequencesExt, TreeValueRef

Inf == 999999

-----------------------------------------------------------------------------
(* regex leaves: a sequence of quantified character classes, matched against the whole leaf value *)
RECURSIVE ReEnds(_,_,_)
\* positions of val reachable after matching items[j..] from positions S  (S: set of offsets already consumed)
ItemEnds(it, val, p) ==
  LET maxRun == CHOOSE m \in 0..(Len(val) - p) :
                   /\ \A q \in 1..m : val[p + q] \in ToSet(it.set)
                   /\ (m = Len(val) - p \/ val[p + m + 1] \notin ToSet(it.set))
      hi == IF it.hi > maxRun THEN maxRun ELSE it.hi
  IN IF it.lo > hi THEN {} ELSE { p + c : c \in it.lo..hi }
ReEnds(items, val, S) ==
  IF items = <<>> THEN S
  ELSE ReEnds(Tail(items), val, UNION { ItemEnds(Head(items), val, p) : p \in S })
\* a leading zero-width assertion is carried as a pseudo item with hi = 0 and lo = its kind: 1 look-behind for one of
\* `set`, 2 word boundary \b, 3 \B, 4 ^.  A terminal is matched against ITS OWN text only, so the assertion sees
\* nothing to its left: a look-behind can never hold, \b needs a word character first, \B must not have one, ^ holds.
IsWordCp(c) == c \in 48..57 \/ c \in 65..90 \/ c \in 97..122 \/ c = 95 \/ c \in {170, 181, 186} \/ (c >= 192 /\ c <= 591 /\ c \notin {215, 247})
IsAssertion(it) == it.hi = 0 /\ it.lo > 0
AssertionHolds(it, val) ==
  CASE it.lo = 1 -> FALSE
    [] it.lo = 2 -> val # <<>> /\ IsWordCp(val[1])
    [] it.lo = 3 -> val = <<>> \/ ~IsWordCp(val[1])
    [] OTHER -> TRUE
ReMatch(items, val) ==
  IF items # <<>> /\ IsAssertion(items[1]) THEN AssertionHolds(items[1], val) /\ Len(val) \in ReEnds(Tail(items), val, {0})
  ELSE Len(val) \in ReEnds(items, val, {0})

-----------------------------------------------------------------------------
(* helper symbols must never show up in a tree handed to a caller *)
StartsWith(s, prefix) == Len(s) >= Len(prefix) /\ SubSeq(s, 1, Len(prefix)) = prefix
\* symbols travel as strings; the harness flags helper symbols (<__...>, <*...*>) while recording
\* (TLC strings are opaque), see field `helper` of a tree node.

(* the text a subtree spells, as one sequence of integers (only meaningful for all-text trees) *)
RECURSIVE YieldVals(_)
YieldVals(t) == IF t.term THEN t.val ELSE FoldLeft(LAMBDA acc, c : acc \o YieldVals(c), <<>>, t.ch)
(* the leaves of a tree in order, as [kind, val] *)
RECURSIVE Leaves(_)
Leaves(t) == IF t.term THEN <<[kind |-> t.kind, val |-> t.val]>> ELSE FoldLeft(LAMBDA acc, c : acc \o Leaves(c), <<>>, t.ch)

IsDigitText(v) == v # <<>> /\ \A i \in 1..Len(v) : v[i] \in 48..57
NatOf(v) == FoldLeft(LAMBDA acc, x : acc * 10 + (x - 48), 0, v)

(* all nodes of a tree with their paths, in document (pre-)order *)
RECURSIVE NodesWithPaths(_,_)
NodesWithPaths(t, path) ==
  <<[sym |-> t.sym, term |-> t.term, path |-> path, text |-> YieldVals(t)]>> \o
  FoldLeft(LAMBDA acc, i : acc \o NodesWithPaths(t.ch[i], Append(path, i)), <<>>, [i \in 1..Len(t.ch) |-> i])

RECURSIVE PathLess(_,_)       \* strict document order on paths; a proper prefix (an ancestor) is NOT less
PathLess(p, q) == IF p = <<>> \/ q = <<>> THEN FALSE
                  ELSE IF Head(p) < Head(q) THEN TRUE
                  ELSE IF Head(p) > Head(q) THEN FALSE
                  ELSE PathLess(Tail(p), Tail(q))

(* the number a computed repetition has to obey: spelled by the last <ref> that lies entirely to the left of
   the position `at` (path of the place where the repetition starts); -1 when there is none or it is no number *)
RefCount(all, ref, at) ==
  LET cands == SelectSeq(all, LAMBDA n : ~n.term /\ n.sym = ref /\ PathLess(n.path, at))
  IN IF cands = <<>> THEN -1
     ELSE LET c == cands[Len(cands)] IN IF IsDigitText(c.text) /\ Len(c.text) <= 6 THEN NatOf(c.text) ELSE -1

-----------------------------------------------------------------------------
(* Ends(G, all, path, node, seq, i): the set of positions j such that seq[i+1..j] (children of the tree node at
   `path`) is matched by the grammar node.  Alternatives = union, concatenation = relational composition,
   repetition = lo..hi-fold composition. *)
RECURSIVE Ends(_,_,_,_,_,_)
RECURSIVE RepEnds(_,_,_,_,_,_,_,_,_)
\* A terminal of a text grammar symbol may appear as a bytes leaf (and vice versa) when the input was bytes
\* (text): the leaf then carries the UTF-8 encoding of the text.  Bits only match bits.
AsBytes(kind, v) == IF kind = "text" THEN Utf8All(v) ELSE v
LeafMatches(node, leaf) ==
  /\ leaf.term
  /\ (leaf.kind = "bit") = (node.kind = "bit")
  /\ IF node.k = "lit"
       THEN IF leaf.kind = node.kind THEN leaf.val = node.v ELSE AsBytes(leaf.kind, leaf.val) = AsBytes(node.kind, node.v)
       ELSE ReMatch(node.items, leaf.val)
Ends(G, all, path, node, seq, i) ==
  CASE node.k = "alt" -> UNION { Ends(G, all, path, node.xs[j], seq, i) : j \in 1..Len(node.xs) }
    [] node.k = "cat" ->
         LET RECURSIVE Go(_,_)
             Go(j, S) == IF j > Len(node.xs) \/ S = {} THEN S
                         ELSE Go(j + 1, UNION { Ends(G, all, path, node.xs[j], seq, p) : p \in S })
         IN Go(1, {i})
    [] node.k = "rep" ->
         LET want == IF node.ref = "" THEN -2 ELSE RefCount(all, node.ref, Append(path, i + 1))
             \* kind "upto": the two-sided form  body{lo, int(<ref>)}  - only the upper bound is computed
             lo == IF node.ref = "" \/ node.kind = "upto" THEN node.lo ELSE want
             hi == IF node.ref = "" THEN node.hi ELSE want
         IN IF node.ref # "" /\ want < 0 THEN {}
            ELSE RepEnds(G, all, path, node, seq, {i}, 0, lo, hi)
    [] node.k = "nt"  -> IF i < Len(seq) /\ ~seq[i+1].term /\ seq[i+1].sym = node.s THEN {i + 1} ELSE {}
    [] node.k \in {"lit", "re"} -> IF i < Len(seq) /\ LeafMatches(node, seq[i+1]) THEN {i + 1} ELSE {}
    [] OTHER -> {}
\* S = frontier after n iterations
RepEnds(G, all, path, node, seq, S, n, lo, hi) ==
  LET here == IF n >= lo THEN S ELSE {} IN
  IF S = {} \/ n >= hi \/ (n >= lo /\ n > Len(seq) + 1) THEN here
  ELSE LET S2 == UNION { Ends(G, all, path, node.xs[1], seq, p) : p \in S } IN
       IF n < lo /\ S2 = S THEN S          \* iterations that change nothing: the frontier stays S up to lo and beyond
       ELSE \* once n >= lo every position of S is accepted; re-exploring it from a later iteration adds nothing
            here \cup RepEnds(G, all, path, node, seq, IF n >= lo THEN S2 \ S ELSE S2, n + 1, lo, hi)

(* Valid: every inner node's children spell one expansion of its rule *)
RECURSIVE ValidAt(_,_,_,_)
ValidAt(G, all, t, path) ==
  IF t.term THEN t.ch = <<>>
  ELSE /\ t.sym \in DOMAIN G.rules
       /\ ~t.helper
       /\ Len(t.ch) \in Ends(G, all, path, G.rules[t.sym], t.ch, 0)
       /\ \A j \in 1..Len(t.ch) : ValidAt(G, all, t.ch[j], Append(path, j))
Valid(G, t) == ValidAt(G, NodesWithPaths(t, <<>>), t, <<>>)

(* which clause fails first (for verdicts) *)
RECURSIVE FirstBad(_,_,_,_)
FirstBad(G, all, t, path) ==
  IF t.term THEN (IF t.ch = <<>> THEN "" ELSE "leaf-with-children")
  ELSE IF t.helper THEN "helper-symbol"
  ELSE IF t.sym \notin DOMAIN G.rules THEN "unknown-symbol"
  ELSE IF Len(t.ch) \notin Ends(G, all, path, G.rules[t.sym], t.ch, 0) THEN "not-an-expansion"
  ELSE LET bads == SelectSeq([j \in 1..Len(t.ch) |-> FirstBad(G, all, t.ch[j], Append(path, j))], LAMBDA s : s # "")
       IN IF bads = <<>> THEN "" ELSE bads[1]
WhyInvalid(G, t) == FirstBad(G, NodesWithPaths(t, <<>>), t, <<>>)
=============================================================================
