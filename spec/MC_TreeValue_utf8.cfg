SPECIFICATION Spec
CONSTANTS
  FlushEnc = "utf8"
  OnlyLocallyAligned = TRUE
  Alphabet <- mcAlphabet
  MaxUnits <- mcMaxUnits
INVARIANT ViewsAgree
CHECK_DEADLOCK FALSE
