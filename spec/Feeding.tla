------------------------------- MODULE Feeding -------------------------------
(***************************************************************************)
(* The feeding schedule of incremental parsing (IterativeParser.consume,    *)
(* protocol mode): an input of N units arrives as consecutive non-empty     *)
(* fragments.  What the parser may know after a fragment is a function of   *)
(* the units consumed so far only - never of where the cuts were.           *)
(*                                                                          *)
(* TLC explores every composition of N (all 2^(N-1) ways of cutting); the   *)
(* harness drives the real parser along each behaviour (spec -> code) and   *)
(* compares, after the last fragment, the complete parses with those of the *)
(* behaviour that feeds everything at once, and after every fragment the    *)
(* viable-prefix claim can_continue().                                      *)
(***************************************************************************)
EXTENDS Naturals, Sequences, TLC, Json, IOUtils

CONSTANT MaxN
VARIABLES n,        \* length of the input
          consumed, \* units consumed so far
          cuts,     \* the cut positions chosen so far (history, for replay)
          known     \* abstract knowledge of the parser: here simply the number of units it has seen
vars == <<n, consumed, cuts, known>>

Init == n \in 1..MaxN /\ consumed = 0 /\ cuts = <<>> /\ known = 0

Feed(k) == /\ k >= 1 /\ consumed + k <= n
           /\ consumed' = consumed + k
           /\ cuts' = IF consumed + k < n THEN Append(cuts, consumed + k) ELSE cuts
           /\ known' = known + k
           /\ UNCHANGED n
Next == \E k \in 1..MaxN : Feed(k)
Spec == Init /\ [][Next]_vars

(* C13 at the level of the design: knowledge depends on the consumed prefix only *)
FragmentationIndependent == known = consumed
Emit == consumed < n \/ PrintT(<<"SCHEDULE", n, ToJson(cuts)>>)
=============================================================================
