---------------------------- MODULE MC_TreeValue ----------------------------
EXTENDS TreeValue, Json, IOUtils
B8 == << BitLeaf(0), BitLeaf(1), BitLeaf(0), BitLeaf(0), BitLeaf(0), BitLeaf(0), BitLeaf(0), BitLeaf(1) >>     \* 0x41 'A'
\* "a", "é", "€", b"\x80", b"A", "", "7", eight bits, one bit 1, one bit 0
mcAlphabet == { <<TxtLeaf(<<97>>)>>, <<TxtLeaf(<<233>>)>>, <<TxtLeaf(<<8364>>)>>, <<BytLeaf(<<128>>)>>, <<BytLeaf(<<65>>)>>, <<TxtLeaf(<<>>)>>,
                <<TxtLeaf(<<55>>)>>, B8, <<BitLeaf(1)>>, <<BitLeaf(0)>> }
mcMaxUnits == atoi(IOEnv.MAXUNITS)

\* the case table for the spec -> code replay: every (leaf sequence, shape) with what the reference demands
CasesOf(us) == LET ls == LeavesOf(us) IN
  { [leaves |-> ls, shape |-> t, local |-> LocallyAligned(t, ls), aligned |-> Aligned(ls),
     expect |-> [v \in Views |-> Expect(v, ls)]] : t \in {x \in Shapes(Len(ls)) : WellFormed(x, Len(ls))} }
Cases == UNION { CasesOf(us) : us \in UnitSeqs }
WriteTable == ndJsonSerialize(IOEnv.OUT, SetToSeq(Cases)) /\ PrintT(<<"cases", Cardinality(Cases)>>)
=============================================================================
