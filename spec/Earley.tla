-------------------------------- MODULE Earley --------------------------------
(***************************************************************************)
(* Symbol-level model of the chart parser (language/grammar/parser):          *)
(* predict / scan / complete over columns, star and plus compiled to         *)
(* right-recursive helper rules as visitStar/visitPlus do, prefix mode        *)
(* (ParsingMode.INCOMPLETE) completing every item that has collected          *)
(* something at the end of the input.  Two admission rules side by side:      *)
(*   AdmitByCore = TRUE   one item per (rule, dot, origin) - the specification *)
(*   AdmitByCore = FALSE  identity also covers the children collected so far  *)
(*                        (ParseState.__hash__ covers children, __eq__ does   *)
(*                        not) - the implementation                           *)
(* Property C06: the closure terminates (<>[]Quiescent); with the              *)
(* implementation's admission rule cyclic empty derivations make the chart   *)
(* grow without bound (Bounded is violated for every MaxSize).                *)
(***************************************************************************)
EXTENDS Naturals, Sequences, FiniteSets, TLC

\* Symbol-level abstraction of the chart parser: items carry `size`, the number of tree nodes
\* collected so far, standing for the children list that the implementation's ParseState carries.
CONSTANTS Rules,        \* set of [lhs, rhs]  (rhs: sequence of symbols; helper rules of * and + included)
          NT,           \* set of nonterminal symbols
          Start, Input, \* start symbol, input as a sequence of terminals
          PrefixMode,   \* TRUE = ParsingMode.INCOMPLETE
          AdmitByCore,  \* TRUE = specification (one item per core), FALSE = implementation (core + children)
          MaxSize       \* bound on `size` used only to keep the violating model finite

N == Len(Input)
VARIABLES chart, todo     \* chart: 0..N -> set of items; todo: set of <<k, item>> still to be processed
vars == <<chart, todo>>

Item(l, r, d, o, s) == [lhs |-> l, rhs |-> r, dot |-> d, origin |-> o, size |-> s]
Core(it) == <<it.lhs, it.rhs, it.dot, it.origin>>
Finished(it) == it.dot = Len(it.rhs)
NextSym(it) == it.rhs[it.dot + 1]

Admissible(k, it) == /\ it.size <= MaxSize
                     /\ IF AdmitByCore THEN \A x \in chart[k] : Core(x) # Core(it)
                        ELSE it \notin chart[k]
\* add a set of candidate items to column k
AddAll(k, cands) ==
  LET new == { it \in cands : Admissible(k, it) }
      \* with AdmitByCore keep one representative per core among the candidates themselves
      pick == IF AdmitByCore THEN { it \in new : \A y \in new : Core(y) = Core(it) => y.size >= it.size } ELSE new
  IN /\ chart' = [chart EXCEPT ![k] = @ \cup pick]
     /\ todo' = (todo \ {CHOOSE t \in todo : TRUE}) \cup { <<k, it>> : it \in pick }

Init == /\ chart = [k \in 0..N |-> IF k = 0 THEN { Item("S'", <<Start>>, 0, 0, 0) } ELSE {}]
        /\ todo = { <<0, Item("S'", <<Start>>, 0, 0, 0)>> }

\* process one pending item (the CHOOSE makes the closure order deterministic: one behaviour)
Step ==
  /\ todo # {}
  /\ LET t == CHOOSE t \in todo : TRUE  k == t[1]  it == t[2] IN
     IF ~Finished(it) /\ ~(PrefixMode /\ k = N /\ it.size > 0 /\ FALSE)
     THEN IF NextSym(it) \in NT
          THEN \* predict
               AddAll(k, { Item(r.lhs, r.rhs, 0, k, 0) : r \in { r \in Rules : r.lhs = NextSym(it) } }
                         \cup \* completion by an already finished (possibly empty) item of that symbol
                         { [it EXCEPT !.dot = @ + 1, !.size = @ + f.size + 1] :
                               f \in { f \in chart[k] : Finished(f) /\ f.lhs = NextSym(it) /\ f.origin = k } })
          ELSE \* scan
               IF k < N /\ Input[k+1] = NextSym(it)
               THEN /\ chart' = [chart EXCEPT ![k+1] = @ \cup {[it EXCEPT !.dot = @ + 1, !.size = @ + 1]}]
                    /\ todo' = (todo \ {t}) \cup { <<k+1, [it EXCEPT !.dot = @ + 1, !.size = @ + 1]>> }
               ELSE /\ todo' = todo \ {t} /\ UNCHANGED chart
     ELSE \* complete (finished item)
          AddAll(k, { [p EXCEPT !.dot = @ + 1, !.size = @ + it.size + 1] :
                        p \in { p \in chart[it.origin] : ~Finished(p) /\ NextSym(p) = it.lhs } })

\* prefix mode: at the end of the input every item that has collected something is treated as complete
PrefixComplete ==
  /\ PrefixMode /\ todo = {}
  /\ \E it \in chart[N] : /\ ~Finished(it) /\ it.size > 0
        /\ LET cands == { [p EXCEPT !.dot = @ + 1, !.size = @ + it.size + 1] :
                            p \in { p \in chart[it.origin] : ~Finished(p) /\ NextSym(p) = it.lhs } }
               new == { c \in cands : Admissible(N, c) }
           IN /\ new # {}
              /\ chart' = [chart EXCEPT ![N] = @ \cup new]
              /\ todo' = { <<N, c>> : c \in new }

Next == Step \/ PrefixComplete
Spec == Init /\ [][Next]_vars /\ WF_vars(Next)

Quiescent == todo = {} /\ ~ENABLED PrefixComplete
Terminates == <>[]Quiescent
Bounded == \A k \in 0..N : \A it \in chart[k] : it.size + 4 <= MaxSize     \* reaching the artificial bound = unbounded growth in reality
Accepts == \E it \in chart[N] : it.lhs = "S'" /\ Finished(it)
=============================================================================
