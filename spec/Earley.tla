-------------------------------- MODULE Earley --------------------------------
(***************************************************************************)
(* Symbol-level model of the chart parser (language/grammar/parser):          *)
(* predict / scan / complete over columns, star and plus compiled to         *)
(* right-recursive helper rules as visitStar/visitPlus do, prefix mode        *)
(* (ParsingMode.INCOMPLETE) completing every item that has collected          *)
(* something at the end of the input.  Two admission rules side by side:      *)
(*   AdmitByCore = TRUE   one item per (rule, dot, origin) - the specification *)
(*   AdmitByCore = FALSE  identity also covers the children collected so far  *)
(*                        (ParseState.__hash__ covers children, __eq__ does   *)
(*                        not) - the implementation                           *)
(* Property C06: the closure terminates (<>[]Quiescent); with the              *)
(* implementation's admission rule cyclic empty derivations make the chart   *)
(* grow without bound (Bounded is violated for every MaxSize).                *)
(***************************************************************************)
EXTENDS Naturals, Sequences, FiniteSets, TLC

\* Symbol-level abstraction of the chart parser: items carry `size`, the number of tree nodes
\* collected so far, standing for the children list that the implementation's ParseState carries.
CONSTANTS Rules,        \* set of [lhs, rhs]  (rhs: sequence of symbols; helper rules of * and + included)
          NT,           \* set of nonterminal symbols
          Start, Input, \* start symbol, input as a sequence of terminals
          PrefixMode,   \* TRUE = ParsingMode.INCOMPLETE
          AdmitByCore,  \* TRUE = specification (one item per core), FALSE = implementation (core + children)
          CatchUp,      \* what predict does when the predicted symbol has already been completed empty in this column:
                        \*   "always"  advance the predicting item (textbook; with implementation admission this is the
                        \*             seeded change C06-a: unbounded on a left recursion followed by a nullable symbol)
                        \*   "never"   the implementation before the repair F38: words such as "c" of
                        \*             <start> ::= <o> <x>; <x> ::= <o> "c"; <o> ::= "y"? are rejected
                        \*   "guarded" advance it unless an item with the same core is already in the column (the repair)
          AnyOrder,     \* TRUE = pending items are processed in any order; FALSE = one fixed order
          MaxSize       \* bound on `size` used only to keep the violating model finite

N == Len(Input)
VARIABLES chart, todo     \* chart: 0..N -> set of items; todo: set of <<k, item>> still to be processed
vars == <<chart, todo>>

Item(l, r, d, o, s) == [lhs |-> l, rhs |-> r, dot |-> d, origin |-> o, size |-> s]
Core(it) == <<it.lhs, it.rhs, it.dot, it.origin>>
Finished(it) == it.dot = Len(it.rhs)
NextSym(it) == it.rhs[it.dot + 1]

Admissible(k, it) == /\ it.size <= MaxSize
                     /\ IF AdmitByCore THEN \A x \in chart[k] : Core(x) # Core(it)
                        ELSE it \notin chart[k]
\* add a set of candidate items to column k
AddAll(t, k, cands) ==
  LET new == { it \in cands : Admissible(k, it) }
      \* with AdmitByCore keep one representative per core among the candidates themselves
      pick == IF AdmitByCore THEN { it \in new : \A y \in new : Core(y) = Core(it) => y.size >= it.size } ELSE new
  IN /\ chart' = [chart EXCEPT ![k] = @ \cup pick]
     /\ todo' = (todo \ {t}) \cup { <<k, it>> : it \in pick }

Init == /\ chart = [k \in 0..N |-> IF k = 0 THEN { Item("S'", <<Start>>, 0, 0, 0) } ELSE {}]
        /\ todo = { <<0, Item("S'", <<Start>>, 0, 0, 0)>> }

\* items that predict may advance over an already finished empty derivation of the predicted symbol
CaughtUp(k, it) ==
  LET cands == { [it EXCEPT !.dot = @ + 1, !.size = @ + f.size + 1] :
                   f \in { f \in chart[k] : Finished(f) /\ f.lhs = NextSym(it) /\ f.origin = k } }
  IN CASE CatchUp = "always"  -> cands
       [] CatchUp = "never"   -> {}
       [] CatchUp = "guarded" -> { c \in cands : \A x \in chart[k] : Core(x) # Core(c) }

\* process one pending item
Step(t) ==
  /\ LET k == t[1]  it == t[2] IN
     IF ~Finished(it) /\ ~(PrefixMode /\ k = N /\ it.size > 0 /\ FALSE)
     THEN IF NextSym(it) \in NT
          THEN \* predict
               AddAll(t, k, { Item(r.lhs, r.rhs, 0, k, 0) : r \in { r \in Rules : r.lhs = NextSym(it) } } \cup CaughtUp(k, it))
          ELSE \* scan
               IF k < N /\ Input[k+1] = NextSym(it)
               THEN /\ chart' = [chart EXCEPT ![k+1] = @ \cup {[it EXCEPT !.dot = @ + 1, !.size = @ + 1]}]
                    /\ todo' = (todo \ {t}) \cup { <<k+1, [it EXCEPT !.dot = @ + 1, !.size = @ + 1]>> }
               ELSE /\ todo' = todo \ {t} /\ UNCHANGED chart
     ELSE \* complete (finished item)
          AddAll(t, k, { [p EXCEPT !.dot = @ + 1, !.size = @ + it.size + 1] :
                        p \in { p \in chart[it.origin] : ~Finished(p) /\ NextSym(p) = it.lhs } })

\* prefix mode: at the end of the input every item that has collected something is treated as complete
PrefixComplete ==
  /\ PrefixMode /\ todo = {}
  /\ \E it \in chart[N] : /\ ~Finished(it) /\ it.size > 0
        /\ LET cands == { [p EXCEPT !.dot = @ + 1, !.size = @ + it.size + 1] :
                            p \in { p \in chart[it.origin] : ~Finished(p) /\ NextSym(p) = it.lhs } }
               new == { c \in cands : Admissible(N, c) }
           IN /\ new # {}
              /\ chart' = [chart EXCEPT ![N] = @ \cup new]
              /\ todo' = { <<N, c>> : c \in new }

Pending == IF AnyOrder \/ todo = {} THEN todo ELSE { CHOOSE t \in todo : TRUE }
Next == (\E t \in Pending : Step(t)) \/ PrefixComplete
Spec == Init /\ [][Next]_vars /\ WF_vars(Next)

Quiescent == todo = {} /\ ~ENABLED PrefixComplete
Terminates == <>[]Quiescent
Bounded == \A k \in 0..N : \A it \in chart[k] : it.size + 4 <= MaxSize     \* reaching the artificial bound = unbounded growth in reality
AcceptsAtEnd == Quiescent => \E it \in chart[N] : it.lhs = "S'" /\ Finished(it)     \* for inputs that belong to the language
Accepts == \E it \in chart[N] : it.lhs = "S'" /\ Finished(it)
=============================================================================
