SPECIFICATION Spec
INVARIANT Final
CHECK_DEADLOCK FALSE
